"""AST-level inlining of same-module helper functions into an anchored function.

"Extract helper" is the most common behaviour-preserving refactoring; the rules
are written against one function body (``compile_code``, ``process_input``,
``add_ra_instructions`` …).  Before such a rule runs, calls of module-level
helpers of the same module are expanded in place, so that the rule sees one body
again:

* ``helper(args)``, ``x = helper(args)``, ``return helper(args)`` — the helper's
  body with parameters bound to the arguments, locals renamed apart, ``return``
  turned into an assignment (early returns are folded into if/else; a ``return``
  inside a loop or ``try`` makes the helper non-inlinable and it is left alone);
* ``for t in gen(args): body`` with ``gen`` a generator — the generator's body
  with every ``yield e`` replaced by ``t = e; body`` (only if *body* has no
  ``break``/``continue`` and the generator has no ``return`` inside a loop).

Nothing is executed; the result is an ``ast.FunctionDef`` with parent links,
analysed like any other function.  Helpers that cannot be inlined stay as calls
(the rules then treat them as before).
"""
from __future__ import annotations

import ast
import os
import copy
import itertools

_counter = itertools.count()


def _clone(node):
    """Structural copy of an AST (fields and positions only: parent links and model attributes are not followed)."""
    if isinstance(node, list):
        return [_clone(x) for x in node]
    if not isinstance(node, ast.AST):
        return node
    new = type(node)()
    for f in node._fields:
        if hasattr(node, f):
            setattr(new, f, _clone(getattr(node, f)))
    for a in ("lineno", "col_offset", "end_lineno", "end_col_offset"):
        if hasattr(node, a):
            setattr(new, a, getattr(node, a))
    return new


class NotInlinable(Exception):
    pass


def _has(node, kinds, stop_at_defs=True):
    for n in ast.walk(node):
        if isinstance(n, kinds):
            return True
    return False


def _assigned_names(fn):
    names = {a.arg for a in fn.args.args} | {a.arg for a in fn.args.kwonlyargs}
    for n in ast.walk(fn):
        if isinstance(n, ast.Name) and isinstance(n.ctx, (ast.Store, ast.Del)):
            names.add(n.id)
        elif isinstance(n, ast.ExceptHandler) and n.name:
            names.add(n.name)
        elif isinstance(n, (ast.Import, ast.ImportFrom)):
            for a in n.names:
                names.add((a.asname or a.name).split(".")[0])
    return names


class _Rename(ast.NodeTransformer):
    def __init__(self, mapping):
        self.m = mapping

    def visit_Name(self, n):
        if n.id in self.m:
            return ast.copy_location(ast.Name(id=self.m[n.id], ctx=n.ctx), n)
        return n

    def visit_ExceptHandler(self, n):
        self.generic_visit(n)
        if n.name in self.m:
            n.name = self.m[n.name]
        return n

    def visit_alias(self, n):
        local = (n.asname or n.name).split(".")[0]
        if local in self.m:
            n.asname = self.m[local]
        return n


def _always_returns(stmts):
    for s in stmts:
        if isinstance(s, (ast.Return, ast.Raise)):
            return True
        if isinstance(s, ast.If) and s.orelse and _always_returns(s.body) and _always_returns(s.orelse):
            return True
    return False


def _elim_returns(stmts, res):
    """Rewrite *stmts* so that 'return e' becomes 'res = e' and control falls to the end."""
    out = []
    for i, s in enumerate(stmts):
        if isinstance(s, ast.Return):
            val = s.value if s.value is not None else ast.Constant(value=None)
            out.append(ast.copy_location(ast.Assign(targets=[ast.Name(id=res, ctx=ast.Store())], value=val), s))
            return out
        if isinstance(s, ast.If) and _has(s, ast.Return):
            rest = stmts[i + 1:]
            body_ret, else_ret = _always_returns(s.body), _always_returns(s.orelse) if s.orelse else False
            if body_ret and not _has_return_list(s.orelse):
                new = ast.If(test=s.test, body=_elim_returns(s.body, res), orelse=_elim_returns(list(s.orelse) + rest, res))
            elif else_ret and not _has_return_list(s.body):
                new = ast.If(test=s.test, body=_elim_returns(list(s.body) + rest, res), orelse=_elim_returns(s.orelse, res))
            elif body_ret and else_ret:
                new = ast.If(test=s.test, body=_elim_returns(s.body, res), orelse=_elim_returns(s.orelse, res))
            else:
                # a return somewhere inside, not at the tail of a branch: duplicate the rest into both branches
                new = ast.If(test=s.test, body=_elim_returns(list(s.body) + _clone(rest), res),
                             orelse=_elim_returns(list(s.orelse) + rest, res))
            if not new.body:
                new.body = [ast.Pass()]
            out.append(ast.copy_location(new, s))
            return out
        if _has(s, ast.Return):
            raise NotInlinable("return inside a loop / try / with")
        out.append(s)
    return out


def _has_return_list(stmts):
    return any(_has(s, ast.Return) for s in stmts)


def _kwargs_display(h, call, params):
    """the dict a '**name' parameter of h receives at this call: explicit keywords that match no named parameter and '**X' parts"""
    keys, values = [], []
    for k in call.keywords:
        if k.arg is None:
            keys.append(None)
            values.append(k.value)
        elif k.arg not in params:
            keys.append(ast.Constant(value=k.arg))
            values.append(k.value)
    return ast.copy_location(ast.Dict(keys=keys, values=values), call)


def _bind_params(h, call, prefix):
    """[Assign renamed_param = arg ...] or NotInlinable."""
    a = h.args
    if call.keywords and any(k.arg is None for k in call.keywords) and not a.kwarg:
        raise NotInlinable("**kwargs")
    if any(isinstance(a_, ast.Starred) for a_ in call.args):
        raise NotInlinable("*args")
    if a.vararg or a.posonlyargs or a.kwonlyargs:
        raise NotInlinable("signature")
    params = [x.arg for x in a.args]
    if a.kwarg:
        kw = _kwargs_display(h, call, params)
        call = ast.copy_location(ast.Call(func=call.func, args=call.args, keywords=[k for k in call.keywords if k.arg is not None and k.arg in params]), call)
        rest = _bind_params_named(h, call, prefix, params)
        rest.append(ast.copy_location(ast.Assign(targets=[ast.Name(id=prefix + a.kwarg.arg, ctx=ast.Store())], value=kw), call))
        return rest
    return _bind_params_named(h, call, prefix, params)


def _bind_params_named(h, call, prefix, params):
    a = h.args
    defaults = dict(zip(params[len(params) - len(a.defaults):], a.defaults))
    bound = {}
    args = list(call.args)
    if isinstance(call.func, ast.Attribute) and params[:1] == ["self"] and not h.decorator_list:
        args = [_clone(call.func.value)] + args
    for i, v in enumerate(args):
        if i >= len(params):
            raise NotInlinable("too many arguments")
        bound[params[i]] = v
    for k in call.keywords:
        if k.arg not in params:
            raise NotInlinable("unknown keyword")
        bound[k.arg] = k.value
    out = []
    for p in params:
        if p in bound:
            v = bound[p]
        elif p in defaults:
            v = _clone(defaults[p])
        else:
            raise NotInlinable("missing argument")
        out.append(ast.copy_location(ast.Assign(targets=[ast.Name(id=prefix + p, ctx=ast.Store())], value=v), call))
    return out


def _split_params(h, call, prefix):
    """(assign statements for parameters that need a local, {param: expr} to substitute directly).
    A parameter that the helper never rebinds and that is bound to a pure expression is replaced by that
    expression (nothing between the call and the helper's statements can change it)."""
    binds = _bind_params(h, call, prefix)
    stored = {n.id for n in ast.walk(h) if isinstance(n, ast.Name) and isinstance(n.ctx, (ast.Store, ast.Del))}
    assigns, subst = [], {}
    for b in binds:
        p = b.targets[0].id[len(prefix):]
        if p not in stored and _pure_arg(b.value):
            subst[p] = b.value
        else:
            assigns.append(b)
    return assigns, subst


class _Subst(ast.NodeTransformer):
    def __init__(self, subst):
        self.s = subst

    def visit_Name(self, n):
        if isinstance(n.ctx, ast.Load) and n.id in self.s:
            return ast.copy_location(_clone(self.s[n.id]), n)
        return n


def _helper_body(mod, h, call, res, caller):
    if h is caller or _has(h, (ast.Yield, ast.YieldFrom, ast.Nonlocal, ast.Global, ast.AsyncFunctionDef, ast.Await)):
        raise NotInlinable("generator / global state / recursion")
    if any(isinstance(n, (ast.FunctionDef, ast.ClassDef, ast.Lambda)) for n in ast.walk(h) if n is not h):
        raise NotInlinable("nested definitions")
    if h.decorator_list and [norm_(d) for d in h.decorator_list] != ["staticmethod"]:
        raise NotInlinable("decorated")
    prefix = f"_{h.name.strip('_')}{next(_counter)}_"
    names = _assigned_names(h)
    stmts, subst = _split_params(h, call, prefix)
    mapping = {n: prefix + n for n in names if n not in subst}
    body = _clone(h.body)
    # drop the docstring
    if body and isinstance(body[0], ast.Expr) and isinstance(body[0].value, ast.Constant) and isinstance(body[0].value.value, str):
        body = body[1:]
    body = [_Subst(subst).visit(s) for s in body]
    body = [_Rename(mapping).visit(s) for s in body]
    init = ast.copy_location(ast.Assign(targets=[ast.Name(id=res, ctx=ast.Store())], value=ast.Constant(value=None)), call)
    if _always_returns(body):
        return stmts + _elim_returns(body, res)      # every path assigns the result: no 'res = None' needed
    return stmts + [init] + _elim_returns(body, res)


def _as_generator(h):
    """acc = []; ... acc.append(X) ...; return acc   ->   the same function yielding X (only used where the result is iterated once)"""
    body = list(h.body)
    if body and isinstance(body[0], ast.Expr) and isinstance(body[0].value, ast.Constant) and isinstance(body[0].value.value, str):
        body = body[1:]
    if len(body) < 2 or not (isinstance(body[0], ast.Assign) and len(body[0].targets) == 1 and isinstance(body[0].targets[0], ast.Name)
                             and isinstance(body[0].value, ast.List) and not body[0].value.elts):
        return None
    acc = body[0].targets[0].id
    if not (isinstance(body[-1], ast.Return) and isinstance(body[-1].value, ast.Name) and body[-1].value.id == acc):
        return None
    mid = body[1:-1]
    uses = [n for st in mid for n in ast.walk(st) if isinstance(n, ast.Name) and n.id == acc]
    appends = [st for top in mid for st in ast.walk(top) if isinstance(st, ast.Expr) and isinstance(st.value, ast.Call) and isinstance(st.value.func, ast.Attribute)
               and st.value.func.attr == "append" and isinstance(st.value.func.value, ast.Name) and st.value.func.value.id == acc and len(st.value.args) == 1]
    if not appends or len(uses) != len(appends) or _has(ast.Module(body=mid, type_ignores=[]), (ast.Return, ast.Yield, ast.YieldFrom)):
        return None
    g = _clone(h)
    gb = list(g.body)
    if gb and isinstance(gb[0], ast.Expr) and isinstance(gb[0].value, ast.Constant) and isinstance(gb[0].value.value, str):
        gb = gb[1:]
    gb = gb[1:-1]

    class A(ast.NodeTransformer):
        def visit_Expr(self, n):
            v = n.value
            if isinstance(v, ast.Call) and isinstance(v.func, ast.Attribute) and v.func.attr == "append" and isinstance(v.func.value, ast.Name) and v.func.value.id == acc:
                return ast.copy_location(ast.Expr(value=ast.Yield(value=v.args[0])), n)
            return n
    g.body = [A().visit(st) for st in gb]
    g.name, g.decorator_list = h.name, []
    return g


def _generator_body(mod, g, call, target, loop_body, caller):
    if g is not caller and not _has(g, ast.Yield):
        g2 = _as_generator(g)
        if g2 is not None:
            g = g2
    if g is caller or not _has(g, ast.Yield) or _has(g, (ast.YieldFrom, ast.Nonlocal, ast.Global)):
        raise NotInlinable("not a plain generator")
    if _has(ast.Module(body=loop_body, type_ignores=[]), (ast.Break, ast.Continue)):
        raise NotInlinable("loop body uses break/continue")
    if any(isinstance(n, (ast.FunctionDef, ast.ClassDef, ast.Lambda)) for n in ast.walk(g) if n is not g) or g.decorator_list:
        raise NotInlinable("nested definitions")
    prefix = f"_{g.name.strip('_')}{next(_counter)}_"
    gassigns, gsubst = _split_params(g, call, prefix)
    mapping = {n: prefix + n for n in _assigned_names(g) if n not in gsubst}
    body = _clone(g.body)
    if body and isinstance(body[0], ast.Expr) and isinstance(body[0].value, ast.Constant) and isinstance(body[0].value.value, str):
        body = body[1:]
    body = [_Subst(gsubst).visit(s) for s in body]
    body = [_Rename(mapping).visit(s) for s in body]
    done = prefix + "done"

    class Y(ast.NodeTransformer):
        def visit_Expr(self, n):
            if isinstance(n.value, ast.Yield):
                val = n.value.value if n.value.value is not None else ast.Constant(value=None)
                asg = ast.copy_location(ast.Assign(targets=[_clone(target)], value=val), n)
                return [asg] + _clone(loop_body)
            return n

    for n in ast.walk(ast.Module(body=body, type_ignores=[])):
        if isinstance(n, ast.Yield) and not isinstance(getattr(n, "_p", None), ast.Expr):
            pass
    # yields must be statement-level
    for s in ast.walk(ast.Module(body=body, type_ignores=[])):
        for c in ast.iter_child_nodes(s):
            if isinstance(c, ast.Yield) and not isinstance(s, ast.Expr):
                raise NotInlinable("yield used as an expression")
    new = []
    for s in body:
        r = Y().visit(s)
        new.extend(r if isinstance(r, list) else [r])
    # a bare 'return' in a generator ends the iteration: fold like early returns
    new = _elim_returns(new, done)
    init = ast.copy_location(ast.Assign(targets=[ast.Name(id=done, ctx=ast.Store())], value=ast.Constant(value=None)), call)
    return gassigns + [init] + new


def norm_(n):
    try:
        return ast.unparse(n)
    except Exception:
        return "?"


def _is_new_helper(mod, qual):
    """Only functions that did not exist when the rules were written are expanded (extracted helpers)."""
    from .corefuncs import CORE_FUNCS
    return qual not in CORE_FUNCS.get(mod.name, set())


def _module_helper(mod, f, caller=None):
    if isinstance(f, ast.Name) and f.id in mod.raw_funcs and "." not in f.id:
        h = mod.raw_funcs[f.id]
        if isinstance(h, ast.FunctionDef) and getattr(h, "cls", None) is None and _is_new_helper(mod, f.id):
            return h
    # self.method(...) inside a method of the same class
    cls = getattr(caller, "cls", None)
    if cls is not None and isinstance(f, ast.Attribute) and isinstance(f.value, ast.Name) and f.value.id == "self":
        h = mod.raw_funcs.get(f"{cls.qual}.{f.attr}")
        if h is None:
            # inherited helper defined in a base class of the same module
            for q, cand in mod.raw_funcs.items():
                if q.endswith("." + f.attr) and getattr(cand, "cls", None) is not None and any(isinstance(b, ast.Name) and b.id == cand.cls.name for b in cls.bases):
                    h = cand
        if isinstance(h, ast.FunctionDef) and _is_new_helper(mod, h.qual):
            if not h.decorator_list and h.args.args and h.args.args[0].arg == "self":
                return h
            if [norm_(d) for d in h.decorator_list] == ["staticmethod"]:
                return h
    return _foreign_helper(mod, f)


def _foreign_helper(mod, f):
    """helper imported from a sibling module (from .utils import helper / utils.helper), or a method that only one class of the
    hand-written modules defines, called on any receiver: X.is_inlined(..)"""
    repo = getattr(mod, "repo", None)
    if repo is None:
        return None
    from .corefuncs import CORE_FUNCS

    def sibling(modname):
        modname = modname.lstrip(".")
        if modname.startswith("stationeers_pytrapic."):
            modname = modname[len("stationeers_pytrapic."):]
        return modname if modname in CORE_FUNCS else None
    if isinstance(f, ast.Name) and f.id in mod.imports and f.id not in mod.raw_funcs:
        src, attr = mod.imports[f.id]
        sm = sibling(src)
        if sm and attr:
            rm = repo.raw_mod(sm)
            h = rm.raw_funcs.get(attr) if rm is not None else None
            if isinstance(h, ast.FunctionDef) and getattr(h, "cls", None) is None and attr not in CORE_FUNCS.get(sm, set()):
                return h
    if isinstance(f, ast.Attribute) and isinstance(f.value, ast.Name) and f.value.id in mod.imports and mod.imports[f.value.id][1] in (None, f.value.id):
        src, attr = mod.imports[f.value.id]
        sm = sibling(src + "." + attr if attr and sibling(src) is None else src) or sibling(attr or "")
        if sm:
            rm = repo.raw_mod(sm)
            h = rm.raw_funcs.get(f.attr) if rm is not None else None
            if isinstance(h, ast.FunctionDef) and getattr(h, "cls", None) is None and f.attr not in CORE_FUNCS.get(sm, set()):
                return h
    if isinstance(f, ast.Attribute) and not (isinstance(f.value, ast.Name) and f.value.id in ("self", "cls")) and _pure_arg(f.value):
        cands = repo.new_methods().get(f.attr, [])
        if len(cands) == 1:
            h = cands[0]
            if not h.decorator_list and h.args.args and h.args.args[0].arg == "self":
                return h
    return None


def _single_expr_helper(h):
    body = list(h.body)
    if body and isinstance(body[0], ast.Expr) and isinstance(body[0].value, ast.Constant) and isinstance(body[0].value.value, str):
        body = body[1:]
    if len(body) == 1 and isinstance(body[0], ast.Return) and body[0].value is not None and (not h.decorator_list or [norm_(d) for d in h.decorator_list] == ["staticmethod"]) \
            and not _has(h, (ast.Yield, ast.YieldFrom, ast.Lambda, ast.NamedExpr, ast.ListComp, ast.SetComp, ast.DictComp, ast.GeneratorExp)):
        return body[0].value
    # if C: return A  [elif ..]  return B      is the expression   A if C else B
    if (not h.decorator_list or [norm_(d) for d in h.decorator_list] == ["staticmethod"]) \
            and not _has(h, (ast.Yield, ast.YieldFrom, ast.Lambda, ast.NamedExpr)):
        def as_expr(stmts):
            if len(stmts) == 1 and isinstance(stmts[0], ast.Return) and stmts[0].value is not None:
                return stmts[0].value
            if len(stmts) >= 2 and isinstance(stmts[0], ast.If) and len(stmts[0].body) == 1 and isinstance(stmts[0].body[0], ast.Return) and stmts[0].body[0].value is not None:
                rest = as_expr(stmts[0].orelse) if stmts[0].orelse else as_expr(stmts[1:])
                if stmts[0].orelse and len(stmts) > 1:
                    return None
                if rest is not None:
                    return ast.copy_location(ast.IfExp(test=stmts[0].test, body=stmts[0].body[0].value, orelse=rest), stmts[0])
            if len(stmts) == 1 and isinstance(stmts[0], ast.If) and stmts[0].orelse and len(stmts[0].body) == 1 and isinstance(stmts[0].body[0], ast.Return) \
                    and stmts[0].body[0].value is not None:
                rest = as_expr(stmts[0].orelse)
                if rest is not None:
                    return ast.copy_location(ast.IfExp(test=stmts[0].test, body=stmts[0].body[0].value, orelse=rest), stmts[0])
            return None
        if not _has(h, (ast.ListComp, ast.SetComp, ast.DictComp)) or True:
            e = as_expr(body)
            if e is not None and len(body) > 1 or (e is not None and isinstance(body[0], ast.If)):
                return e
    return None


def _pure_arg(e):
    return isinstance(e, (ast.Name, ast.Constant)) or isinstance(e, ast.Attribute) and _pure_arg(e.value) or \
        isinstance(e, ast.Subscript) and _pure_arg(e.value) and _pure_arg(e.slice)


class _FlattenDictUnpack(ast.NodeTransformer):
    """{a: 1, **{b: 2, **c}}  ->  {a: 1, b: 2, **c}"""

    def visit_Dict(self, d):
        self.generic_visit(d)
        keys, values = [], []
        for k, v in zip(d.keys, d.values):
            if k is None and isinstance(v, ast.Dict):
                keys.extend(v.keys)
                values.extend(v.values)
            else:
                keys.append(k)
                values.append(v)
        d.keys, d.values = keys, values
        return d


class _DisplayOfDisplay(ast.NodeTransformer):
    """list((a, b))  ->  [a, b];  tuple([a, b]) -> (a, b);  [*(a, b)] -> [a, b]"""

    def visit_Call(self, c):
        self.generic_visit(c)
        if isinstance(c.func, ast.Name) and c.func.id in ("list", "tuple") and len(c.args) == 1 and not c.keywords and isinstance(c.args[0], (ast.Tuple, ast.List)) \
                and not any(isinstance(e, ast.Starred) for e in c.args[0].elts):
            cls = ast.List if c.func.id == "list" else ast.Tuple
            return ast.copy_location(cls(elts=list(c.args[0].elts), ctx=ast.Load()), c)
        return c

    def _splice(self, node):
        self.generic_visit(node)
        elts = []
        for e in node.elts:
            if isinstance(e, ast.Starred) and isinstance(e.value, (ast.Tuple, ast.List)) and not any(isinstance(x, ast.Starred) for x in e.value.elts):
                elts.extend(e.value.elts)
            else:
                elts.append(e)
        node.elts = elts
        return node

    visit_List = _splice
    visit_Tuple = _splice


class _ExprInline(ast.NodeTransformer):
    """f(a, b) -> <returned expression of f with parameters replaced>, for helpers that are one return expression."""

    def __init__(self, mod, caller, log, depth):
        self.mod, self.caller, self.log, self.depth = mod, caller, log, depth

    def visit_Call(self, c):
        self.generic_visit(c)
        if self.depth <= 0:
            return c
        h = _module_helper(self.mod, c.func, self.caller)
        if h is None or h is self.caller:
            return c
        expr = _single_expr_helper(h)
        a = h.args
        if expr is None or (c.keywords and any(k.arg is None for k in c.keywords) and not a.kwarg) or any(isinstance(a_, ast.Starred) for a_ in c.args):
            return c
        if a.posonlyargs or a.kwonlyargs:
            return c
        params = [x.arg for x in a.args]
        star_display = None
        if a.vararg:
            n_pos = len(params) - (1 if isinstance(c.func, ast.Attribute) and params[:1] == ["self"] and not h.decorator_list else 0)
            if any(k.arg in params for k in c.keywords if k.arg) or len(c.args) < n_pos:
                return c
            star_display = ast.copy_location(ast.Tuple(elts=list(c.args[n_pos:]), ctx=ast.Load()), c)
            c = ast.copy_location(ast.Call(func=c.func, args=list(c.args[:n_pos]), keywords=c.keywords), c)
        kw_display = None
        if a.kwarg:
            kw_display = _kwargs_display(h, c, params)
            c = ast.copy_location(ast.Call(func=c.func, args=c.args, keywords=[k for k in c.keywords if k.arg is not None and k.arg in params]), c)
        args = list(c.args)
        if isinstance(c.func, ast.Attribute) and params[:1] == ["self"] and not h.decorator_list:
            args = [_clone(c.func.value)] + args
        defaults = dict(zip(params[len(params) - len(a.defaults):], a.defaults))
        bound = dict(zip(params, args))
        for k in c.keywords:
            bound[k.arg] = k.value
        for p in params:
            if p not in bound:
                if p in defaults:
                    bound[p] = _clone(defaults[p])
                else:
                    return c
        if kw_display is not None:
            bound[a.kwarg.arg] = kw_display
        if star_display is not None:
            bound[a.vararg.arg] = star_display
        uses = {}
        for n in ast.walk(expr):
            if isinstance(n, ast.Name) and n.id in bound:
                uses[n.id] = uses.get(n.id, 0) + 1
        if any(not _pure_arg(v) and uses.get(p, 0) > 1 for p, v in bound.items()):
            return c
        stores = {n.id for n in ast.walk(expr) if isinstance(n, ast.Name) and isinstance(n.ctx, ast.Store)}
        if stores:
            # only the variables of comprehensions inside the expression (they are local to it), and none of them may
            # capture a name that an argument mentions
            comp_targets = {n.id for comp in ast.walk(expr) if isinstance(comp, ast.comprehension) for n in ast.walk(comp.target) if isinstance(n, ast.Name)}
            arg_names = {n.id for v in bound.values() for n in ast.walk(v) if isinstance(n, ast.Name)}
            if stores - comp_targets or comp_targets & arg_names:
                return c

        class Sub(ast.NodeTransformer):
            def visit_Name(self_, n):
                if n.id in bound and isinstance(n.ctx, ast.Load):
                    return _clone(bound[n.id])
                return n
        new = _FlattenDictUnpack().visit(Sub().visit(_clone(expr)))
        new = _DisplayOfDisplay().visit(new)
        self.log.append(h.name)
        new = _ExprInline(self.mod, self.caller, self.log, self.depth - 1).visit(new)
        return ast.copy_location(new, c)


def _expand(mod, stmts, caller, depth, log):
    out = []
    for s in stmts:
        # recurse into compound statements first
        for fld in ("body", "orelse", "finalbody"):
            if isinstance(getattr(s, fld, None), list) and not isinstance(s, (ast.FunctionDef, ast.ClassDef)):
                setattr(s, fld, _expand(mod, getattr(s, fld), caller, depth, log))
        for hnd in getattr(s, "handlers", []) or []:
            hnd.body = _expand(mod, hnd.body, caller, depth, log)
        try:
            call = target = None
            kind = None
            if isinstance(s, ast.Expr) and isinstance(s.value, ast.Call):
                call, kind = s.value, "expr"
            elif isinstance(s, ast.Assign) and len(s.targets) == 1 and isinstance(s.targets[0], ast.Name) and isinstance(s.value, ast.Call):
                call, kind, target = s.value, "assign", s.targets[0].id
            elif isinstance(s, ast.Assign) and len(s.targets) == 1 and isinstance(s.targets[0], (ast.Attribute, ast.Subscript, ast.Tuple)) and isinstance(s.value, ast.Call):
                call, kind = s.value, "store"
            elif isinstance(s, ast.Return) and isinstance(s.value, ast.Call):
                call, kind = s.value, "return"
            elif isinstance(s, ast.For) and isinstance(s.iter, ast.Call) and not s.orelse:
                call, kind = s.iter, "for"
            h = _module_helper(mod, call.func, caller) if call is not None else None
            if h is None or depth <= 0:
                out.append(s)
                continue
            if kind == "for":
                body = _generator_body(mod, h, call, s.target, s.body, caller)
            else:
                res = target if kind == "assign" else f"_{h.name.strip('_')}_ret{next(_counter)}"
                body = _helper_body(mod, h, call, res, caller)
                if kind == "return":
                    body.append(ast.copy_location(ast.Return(value=ast.Name(id=res, ctx=ast.Load())), s))
                elif kind == "store":
                    body.append(ast.copy_location(ast.Assign(targets=[_clone(s.targets[0])], value=ast.Name(id=res, ctx=ast.Load())), s))
            log.append(h.name)
            for b in body:
                for n in ast.walk(b):
                    if not hasattr(n, "lineno") or True:
                        # report positions at the call site of the helper's statements' own lines where known
                        pass
            # helper calls in expression position inside the expanded body get a statement of their own first
            body = _hoist_nested_helper_calls(mod, body, caller)
            out.extend(_expand(mod, body, caller, depth - 1, log))
        except NotInlinable:
            out.append(s)
    return out


def inline_function(mod, fn, depth=3):
    """Copy of *fn* with same-module helper calls expanded; ``fn`` itself if nothing was expanded."""
    cache = getattr(mod, "_inline_cache", None)
    if cache is None:
        cache = mod._inline_cache = {}
    if id(fn) in cache:
        return cache[id(fn)][0]
    new = _clone(fn)
    log = []
    new.body = _expand(mod, new.body, fn, depth, log)
    if not log:
        cache[id(fn)] = (fn, fn)
        return fn
    ast.fix_missing_locations(new)
    for n in ast.walk(new):
        for c in ast.iter_child_nodes(n):
            c.parent = n
    new.parent = getattr(fn, "parent", None)
    new.qual, new.module, new.cls = fn.qual, fn.module, getattr(fn, "cls", None)
    new.inlined_helpers = sorted(set(log))
    cache[id(fn)] = (new, fn)
    return new


# ---------------------------------------------------------------------------
# further canonicalisation steps (all behaviour-preserving rewrites of the copy)
# ---------------------------------------------------------------------------
def _desugar_comprehension_loops(stmts):
    """x = [elt for a in it if c ...]; for v in x: body   ->   nested for/if with 'v = elt; body'
    (only when x is a local used by that loop alone); also 'for v in (elt for ...)' directly."""
    out = []
    i = 0
    while i < len(stmts):
        s = stmts[i]
        for fld in ("body", "orelse", "finalbody"):
            if isinstance(getattr(s, fld, None), list) and not isinstance(s, (ast.FunctionDef, ast.ClassDef)):
                setattr(s, fld, _desugar_comprehension_loops(getattr(s, fld)))
        for hnd in getattr(s, "handlers", []) or []:
            hnd.body = _desugar_comprehension_loops(hnd.body)
        nxt = stmts[i + 1] if i + 1 < len(stmts) else None
        comp = None
        loop = None
        between = []
        if isinstance(s, ast.Assign) and len(s.targets) == 1 and isinstance(s.targets[0], ast.Name) and isinstance(s.value, (ast.ListComp, ast.GeneratorExp)):
            # statements between the comprehension and its loop that only bind empty containers / constants may stay in front
            j = i + 1
            while j < len(stmts) and isinstance(stmts[j], ast.Assign) and all(isinstance(t, ast.Name) for t in stmts[j].targets) \
                    and (isinstance(stmts[j].value, ast.Constant) or isinstance(stmts[j].value, (ast.Dict, ast.List, ast.Set, ast.Tuple)) and not ast.dump(stmts[j].value).count("Name(")) \
                    and not any(isinstance(n, ast.Name) and n.id == s.targets[0].id for n in ast.walk(stmts[j])):
                j += 1
            if j > i + 1 and j < len(stmts) and isinstance(stmts[j], ast.For):
                between = stmts[i + 1:j]
                nxt = stmts[j]
        if isinstance(s, ast.Assign) and len(s.targets) == 1 and isinstance(s.targets[0], ast.Name) and isinstance(s.value, (ast.ListComp, ast.GeneratorExp)) \
                and isinstance(nxt, ast.For) and isinstance(nxt.iter, ast.Name) and nxt.iter.id == s.targets[0].id and not nxt.orelse:
            name = s.targets[0].id
            used_elsewhere = any(isinstance(n, ast.Name) and n.id == name for st in stmts[i + 2 + len(between):] for n in ast.walk(st)) or \
                any(isinstance(n, ast.Name) and n.id == name for st in nxt.body for n in ast.walk(st))
            if not used_elsewhere:
                comp, loop = s.value, nxt
        elif isinstance(s, ast.For) and isinstance(s.iter, (ast.GeneratorExp, ast.ListComp)) and not s.orelse:
            comp, loop = s.iter, s
        def real_loops(c):
            k = 0
            for g_ in c.generators:
                k += real_loops(g_.iter) if isinstance(g_.iter, (ast.GeneratorExp, ast.ListComp)) else 1
            return k
        # 'continue' in the body still means "next element" (the body is the tail of the innermost generated loop);
        # 'break' only keeps its meaning when a single real loop is generated
        if comp is not None and (not _has(ast.Module(body=loop.body, type_ignores=[]), ast.Break) or real_loops(comp) == 1):
            if loop is not s:
                out.extend(between)
            out.append(_comp_to_loops(comp, loop.target, _desugar_comprehension_loops(loop.body), loop))
            if loop is not s:
                i += 1 + len(between)
        else:
            out.append(s)
        i += 1
    return out


def _desugar_any_all(stmts):
    """flag = any(<test> for v in it)   ->   flag = False; for v in it: if <test>: flag = True
    flag = all(<test> for v in it)   ->   flag = True;  for v in it: if not <test>: flag = False
    (same value; the tests of this code base have no side effects)."""
    out = []
    for s in stmts:
        for fld in ("body", "orelse", "finalbody"):
            if isinstance(getattr(s, fld, None), list) and not isinstance(s, (ast.FunctionDef, ast.ClassDef)):
                setattr(s, fld, _desugar_any_all(getattr(s, fld)))
        for hnd in getattr(s, "handlers", []) or []:
            hnd.body = _desugar_any_all(hnd.body)
        v = s.value if isinstance(s, ast.Assign) and len(s.targets) == 1 and isinstance(s.targets[0], ast.Name) else None
        if isinstance(v, ast.Call) and isinstance(v.func, ast.Name) and v.func.id in ("any", "all") and len(v.args) == 1 and not v.keywords \
                and isinstance(v.args[0], (ast.GeneratorExp, ast.ListComp)) and not _has(v.args[0], (ast.NamedExpr, ast.Lambda)):
            comp, is_any = v.args[0], v.func.id == "any"
            tgt = s.targets[0].id
            if not any(isinstance(n, ast.Name) and n.id == tgt for n in ast.walk(comp)):
                test = comp.elt if is_any else ast.UnaryOp(op=ast.Not(), operand=comp.elt)
                inner = [ast.copy_location(ast.If(test=test, body=[ast.copy_location(ast.Assign(targets=[ast.Name(id=tgt, ctx=ast.Store())], value=ast.Constant(value=is_any)), s)], orelse=[]), s)]
                for gen in reversed(comp.generators):
                    for cond in reversed(gen.ifs):
                        inner = [ast.copy_location(ast.If(test=cond, body=inner, orelse=[]), s)]
                    inner = [ast.copy_location(ast.For(target=gen.target, iter=gen.iter, body=inner, orelse=[]), s)]
                out.append(ast.copy_location(ast.Assign(targets=[ast.Name(id=tgt, ctx=ast.Store())], value=ast.Constant(value=not is_any)), s))
                out.append(inner[0])
                continue
        out.append(s)
    return out


def _desugar_reduce(stmts):
    """x = functools.reduce(lambda acc, v: E, it, init)   ->   x = init; for v in it: x = E[acc := x]"""
    out = []
    for s in stmts:
        for fld in ("body", "orelse", "finalbody"):
            if isinstance(getattr(s, fld, None), list) and not isinstance(s, (ast.FunctionDef, ast.ClassDef)):
                setattr(s, fld, _desugar_reduce(getattr(s, fld)))
        for hnd in getattr(s, "handlers", []) or []:
            hnd.body = _desugar_reduce(hnd.body)
        v = s.value if isinstance(s, ast.Assign) and len(s.targets) == 1 and isinstance(s.targets[0], ast.Name) else None
        if isinstance(v, ast.Call) and norm_(v.func) in ("functools.reduce", "reduce") and len(v.args) == 3 and not v.keywords and isinstance(v.args[0], ast.Lambda) \
                and len(v.args[0].args.args) == 2 and not v.args[0].args.defaults and not _has(v.args[0].body, (ast.Lambda, ast.NamedExpr)):
            lam, it, init = v.args
            acc, var = lam.args.args[0].arg, lam.args.args[1].arg
            tgt = s.targets[0].id
            if tgt != var and not any(isinstance(n, ast.Name) and n.id == tgt for n in ast.walk(lam.body)) and not any(isinstance(n, ast.Name) and n.id == tgt for n in ast.walk(it)):
                body = _Subst({acc: ast.Name(id=tgt, ctx=ast.Load())}).visit(_clone(lam.body))
                out.append(ast.copy_location(ast.Assign(targets=[ast.Name(id=tgt, ctx=ast.Store())], value=init), s))
                out.append(ast.copy_location(ast.For(target=ast.Name(id=var, ctx=ast.Store()), iter=it,
                                                     body=[ast.copy_location(ast.Assign(targets=[ast.Name(id=tgt, ctx=ast.Store())], value=body), s)], orelse=[]), s))
                continue
        out.append(s)
    return out


def _desugar_next_find(stmts):
    """x = next((ELT for T in IT if C), None); if x is not None: BODY      (x not used elsewhere, BODY without break/continue/return of its own loop)
         ->   for T in IT: if C: x = ELT; BODY; break
    and the plain form   x = next((ELT for T in IT if C), D)   ->   x = D; for T in IT: if C: x = ELT; break"""
    out = []
    i = 0
    while i < len(stmts):
        s = stmts[i]
        for fld in ("body", "orelse", "finalbody"):
            if isinstance(getattr(s, fld, None), list) and not isinstance(s, (ast.FunctionDef, ast.ClassDef)):
                setattr(s, fld, _desugar_next_find(getattr(s, fld)))
        for hnd in getattr(s, "handlers", []) or []:
            hnd.body = _desugar_next_find(hnd.body)
        v = s.value if isinstance(s, ast.Assign) and len(s.targets) == 1 and isinstance(s.targets[0], ast.Name) else None
        if isinstance(v, ast.Call) and isinstance(v.func, ast.Name) and v.func.id == "next" and len(v.args) == 2 and not v.keywords \
                and isinstance(v.args[0], ast.GeneratorExp) and len(v.args[0].generators) == 1 and not _has(v.args[0], (ast.NamedExpr, ast.Lambda)) \
                and isinstance(v.args[1], ast.Constant):
            gen, dflt = v.args[0], v.args[1]
            g0 = gen.generators[0]
            x = s.targets[0].id
            nxt = stmts[i + 1] if i + 1 < len(stmts) else None
            used_later = any(isinstance(n, ast.Name) and n.id == x for st in stmts[i + 2:] for n in ast.walk(st))
            bound = {n.id for n in ast.walk(g0.target) if isinstance(n, ast.Name)}
            clash = any(isinstance(n, ast.Name) and n.id in bound for st in stmts[i + 1:] for n in ast.walk(st))
            if clash:
                # comprehension variables do not leak: give the loop fresh names
                k = next(_counter)
                ren = _Rename({b: f"_{b}_nf{k}" for b in bound})
                gen = ren.visit(_clone(gen))
                g0 = gen.generators[0]
                clash = False
            assign = ast.copy_location(ast.Assign(targets=[ast.Name(id=x, ctx=ast.Store())], value=gen.elt), s)
            if not clash and dflt.value is None and isinstance(nxt, ast.If) and not nxt.orelse and not used_later \
                    and isinstance(nxt.test, ast.Compare) and len(nxt.test.ops) == 1 and isinstance(nxt.test.ops[0], ast.IsNot) \
                    and isinstance(nxt.test.left, ast.Name) and nxt.test.left.id == x and isinstance(nxt.test.comparators[0], ast.Constant) and nxt.test.comparators[0].value is None \
                    and not _has(ast.Module(body=nxt.body, type_ignores=[]), (ast.Break, ast.Continue)):
                inner = [assign] + list(nxt.body) + [ast.copy_location(ast.Break(), s)]
                for cond in reversed(g0.ifs):
                    inner = [ast.copy_location(ast.If(test=cond, body=inner, orelse=[]), s)]
                out.append(ast.copy_location(ast.For(target=g0.target, iter=g0.iter, body=inner, orelse=[]), s))
                i += 2
                continue
            if not clash:
                inner = [assign, ast.copy_location(ast.Break(), s)]
                for cond in reversed(g0.ifs):
                    inner = [ast.copy_location(ast.If(test=cond, body=inner, orelse=[]), s)]
                out.append(ast.copy_location(ast.Assign(targets=[ast.Name(id=x, ctx=ast.Store())], value=dflt), s))
                out.append(ast.copy_location(ast.For(target=g0.target, iter=g0.iter, body=inner, orelse=[]), s))
                i += 1
                continue
        out.append(s)
        i += 1
    return out


def _desugar_iter_sentinel(stmts):
    """for X in iter(F, S): BODY  [else: ELSE]     ->     while True: X = F(); if X == S: ELSE; break; BODY"""
    out = []
    for s in stmts:
        for fld in ("body", "orelse", "finalbody"):
            if isinstance(getattr(s, fld, None), list) and not isinstance(s, (ast.FunctionDef, ast.ClassDef)):
                setattr(s, fld, _desugar_iter_sentinel(getattr(s, fld)))
        for hnd in getattr(s, "handlers", []) or []:
            hnd.body = _desugar_iter_sentinel(hnd.body)
        if isinstance(s, ast.For) and isinstance(s.target, ast.Name) and isinstance(s.iter, ast.Call) and isinstance(s.iter.func, ast.Name) and s.iter.func.id == "iter" \
                and len(s.iter.args) == 2 and not s.iter.keywords and isinstance(s.iter.args[1], ast.Constant) and _pure_arg(s.iter.args[0]):
            f, sent = s.iter.args
            fetch = ast.copy_location(ast.Assign(targets=[ast.Name(id=s.target.id, ctx=ast.Store())], value=ast.Call(func=f, args=[], keywords=[])), s)
            stop = ast.copy_location(ast.If(test=ast.Compare(left=ast.Name(id=s.target.id, ctx=ast.Load()), ops=[ast.Eq()], comparators=[sent]),
                                            body=list(s.orelse) + [ast.copy_location(ast.Break(), s)], orelse=[]), s)
            out.append(ast.copy_location(ast.While(test=ast.Constant(value=True), body=[fetch, stop] + list(s.body), orelse=[]), s))
            continue
        out.append(s)
    return out


def _dispatch_table(mod, name):
    """module-level NAME = {KEY: lambda ...: expr | function name, ...} bound once -> [(key expr, callable expr)]"""
    sts = mod.assigns.get(name, [])
    if len(sts) != 1 or not isinstance(sts[0], ast.Assign) or not isinstance(sts[0].value, ast.Dict):
        return None
    d = sts[0].value
    rows = []
    for k, v in zip(d.keys, d.values):
        if k is None or not isinstance(v, (ast.Lambda, ast.Name)) or not isinstance(k, (ast.Constant, ast.Attribute, ast.Name)):
            return None
        rows.append((k, v))
    return rows or None


def _apply_callable(f, args):
    """call of a table entry: a lambda's body with parameters replaced, or a plain call of the named function"""
    if isinstance(f, ast.Lambda):
        a = f.args
        if a.vararg or a.kwarg or a.kwonlyargs or a.posonlyargs or a.defaults or len(a.args) != len(args):
            raise NotInlinable("lambda signature")
        uses = {}
        for n in ast.walk(f.body):
            if isinstance(n, ast.Name):
                uses[n.id] = uses.get(n.id, 0) + 1
        if any(not _pure_arg(v) and uses.get(p.arg, 0) > 1 for p, v in zip(a.args, args)):
            raise NotInlinable("impure argument")
        return _Subst({p.arg: v for p, v in zip(a.args, args)}).visit(_clone(f.body))
    return ast.Call(func=_clone(f), args=[_clone(x) for x in args], keywords=[])


def _expand_dispatch_tables(mod, fn):
    """rule = TABLE.get(key, default); ... rule(a, b)   ->   (body1 if key == K1 else body2 if key == K2 else ... default(a, b))"""
    changed = False
    for st in list(ast.walk(fn)):
        if not (isinstance(st, ast.Assign) and len(st.targets) == 1 and isinstance(st.targets[0], ast.Name) and isinstance(st.value, ast.Call)
                and isinstance(st.value.func, ast.Attribute) and st.value.func.attr == "get" and isinstance(st.value.func.value, ast.Name)
                and len(st.value.args) == 2 and not st.value.keywords):
            continue
        rows = _dispatch_table(mod, st.value.func.value.id)
        key, dflt = st.value.args
        if rows is None or not _pure_arg(key) or not isinstance(dflt, (ast.Lambda, ast.Name)):
            continue
        v = st.targets[0].id
        refs = [n for n in ast.walk(fn) if isinstance(n, ast.Name) and n.id == v]
        calls = [c for c in ast.walk(fn) if isinstance(c, ast.Call) and isinstance(c.func, ast.Name) and c.func.id == v]
        if len(refs) != len(calls) + 1 or any(c.keywords or any(isinstance(a, ast.Starred) for a in c.args) for c in calls) or not calls:
            continue
        # the key must not be rebound between the lookup and the calls: require it to be bound at most once in fn
        key_names = {n.id for n in ast.walk(key) if isinstance(n, ast.Name)}
        stores = [n.id for n in ast.walk(fn) if isinstance(n, ast.Name) and isinstance(n.ctx, ast.Store) and n.id in key_names]
        if len(stores) != len(set(stores)):
            continue
        try:
            repl = {}
            for c in calls:
                e = _apply_callable(dflt, c.args)
                for k, f in reversed(rows):
                    e = ast.IfExp(test=ast.Compare(left=_clone(key), ops=[ast.Eq()], comparators=[_clone(k)]), body=_apply_callable(f, c.args), orelse=e)
                repl[id(c)] = e
        except NotInlinable:
            continue

        class R(ast.NodeTransformer):
            def visit_Call(self_, c):
                self_.generic_visit(c)
                return ast.copy_location(repl[id(c)], c) if id(c) in repl else c

            def visit_Assign(self_, a):
                if a is st:
                    return ast.copy_location(ast.Pass(), a)
                return self_.generic_visit(a)
        R().visit(fn)
        changed = True
    return changed


def _comp_to_loops(comp, target, body, at):
    inner = [ast.copy_location(ast.Assign(targets=[_clone(target)], value=comp.elt), at)] + body
    for gen in reversed(comp.generators):
        for cond in reversed(gen.ifs):
            inner = [ast.copy_location(ast.If(test=cond, body=inner, orelse=[]), at)]
        it = gen.iter
        if isinstance(it, (ast.GeneratorExp, ast.ListComp)):
            inner = [_comp_to_loops(it, gen.target, inner, at)]
        else:
            inner = [ast.copy_location(ast.For(target=gen.target, iter=it, body=inner, orelse=[]), at)]
    return inner[0]


def _module_constants(mod):
    """module-level NAME = <str|int literal> bound once."""
    out = {}
    for name, sts in mod.assigns.items():
        if len(sts) == 1 and isinstance(sts[0], ast.Assign) and isinstance(sts[0].value, ast.Constant) and isinstance(sts[0].value.value, (str, int)) \
                and not isinstance(sts[0].value.value, bool):
            out[name] = sts[0].value.value
    # A, B = 'x', 'y'  bound once at module level
    seen = {}
    for st in mod.tree.body:
        if isinstance(st, ast.Assign):
            for t in st.targets:
                for n in ast.walk(t):
                    if isinstance(n, ast.Name):
                        seen[n.id] = seen.get(n.id, 0) + 1
    for st in mod.tree.body:
        if isinstance(st, ast.Assign) and len(st.targets) == 1 and isinstance(st.targets[0], (ast.Tuple, ast.List)) and isinstance(st.value, (ast.Tuple, ast.List)) \
                and len(st.targets[0].elts) == len(st.value.elts):
            for tn, tv in zip(st.targets[0].elts, st.value.elts):
                if isinstance(tn, ast.Name) and seen.get(tn.id) == 1 and isinstance(tv, ast.Constant) and isinstance(tv.value, (str, int)) and not isinstance(tv.value, bool):
                    out[tn.id] = tv.value
    # constants computed from other constants (FIRST = LAST - 1), folded in statement order
    try:
        from .modconst import module_constants
        for name, v in module_constants(mod).items():
            if name not in out and isinstance(v, (str, int)) and not isinstance(v, bool) and (len(mod.assigns.get(name, [])) == 1 or seen.get(name) == 1):
                out[name] = v
    except Exception:
        pass
    return out


class _ConstProp(ast.NodeTransformer):
    def __init__(self, consts, shadowed):
        self.c, self.sh = consts, shadowed

    def visit_Name(self, n):
        if isinstance(n.ctx, ast.Load) and n.id in self.c and n.id not in self.sh:
            return ast.copy_location(ast.Constant(value=self.c[n.id]), n)
        return n


def _copy_propagate(fn, mod=None):
    """Replace uses of locals that are bound exactly once, by 'a = b' with b a Name that is never
    rebound in the function (parameters included), by b."""
    stores = {}
    for n in ast.walk(fn):
        if isinstance(n, ast.Name) and isinstance(n.ctx, ast.Store):
            stores[n.id] = stores.get(n.id, 0) + 1
    params = {a.arg for a in fn.args.args}
    alias = {}
    for st in ast.walk(fn):
        if isinstance(st, ast.Assign) and len(st.targets) == 1 and isinstance(st.targets[0], ast.Name) and isinstance(st.value, ast.Name):
            a, b = st.targets[0].id, st.value.id
            if stores.get(a, 0) == 1 and a not in params and a != b:
                alias[a] = b

    def root(x, seen=()):
        while x in alias and x not in seen:
            seen = seen + (x,)
            x = alias[x]
        return x

    class R(ast.NodeTransformer):
        def visit_Name(self, n):
            if isinstance(n.ctx, ast.Load) and n.id in alias:
                return ast.copy_location(ast.Name(id=root(n.id), ctx=ast.Load()), n)
            return n
    # only sound if the source name is not rebound while the alias is live: require the source to be
    # rebound nowhere, or only before the alias is created (checked conservatively: never rebound except
    # by the statement kinds that create it: parameter / single store / for-target)
    ok_alias = {}
    for a, b in alias.items():
        r = root(a)
        if stores.get(r, 0) <= 1 or r in params and stores.get(r, 0) == 0:
            ok_alias[a] = b
    alias = ok_alias
    fn = R().visit(fn)
    return _attr_alias_propagate(fn, mod)


def _attr_alias_propagate(fn, mod=None):
    """local = self.<attr>  (bound once)  ->  uses of the local read self.<attr> directly, provided no code of the
    module outside __init__/__post_init__ ever stores an attribute of that name (so it cannot change while the alias lives)."""
    mod = mod or getattr(fn, "module", None)
    if mod is None:
        return fn
    stored = getattr(mod, "_attr_stores", None)
    if stored is None:
        stored = set()
        for q, f in mod.raw_funcs.items():
            if f.name in ("__init__", "__post_init__"):
                continue
            for n in ast.walk(f):
                if isinstance(n, ast.Attribute) and isinstance(n.ctx, (ast.Store, ast.Del)):
                    stored.add(n.attr)
                if isinstance(n, ast.Call) and isinstance(n.func, ast.Name) and n.func.id in ("setattr", "delattr"):
                    stored.add("*")
        mod._attr_stores = stored
    if "*" in stored:
        return fn
    stores = {}
    for n in ast.walk(fn):
        if isinstance(n, ast.Name) and isinstance(n.ctx, ast.Store):
            stores[n.id] = stores.get(n.id, 0) + 1
    params = {a.arg for a in fn.args.args}
    alias = {}
    for st in ast.walk(fn):
        if isinstance(st, ast.Assign) and len(st.targets) == 1 and isinstance(st.targets[0], ast.Name) and isinstance(st.value, ast.Attribute) \
                and "self" in params and stores.get("self", 0) == 0:
            # self.a  /  self.a.b  /  self.a.b.c : every attribute of the chain is never stored outside __init__
            chain, cur = [], st.value
            while isinstance(cur, ast.Attribute):
                chain.append(cur.attr)
                cur = cur.value
            if not (isinstance(cur, ast.Name) and cur.id == "self") or len(chain) > 3:
                continue
            a = st.targets[0].id
            if stores.get(a, 0) == 1 and a not in params and not any(x in stored for x in chain):
                alias[a] = st.value
    if not alias:
        return fn

    class R(ast.NodeTransformer):
        def visit_Name(self, n):
            if isinstance(n.ctx, ast.Load) and n.id in alias:
                return ast.copy_location(_clone(alias[n.id]), n)
            return n
    return R().visit(fn)


def _hoist_nested_helper_calls(mod, stmts, caller):
    """stmt(... helper(args) ...)  ->  tmp = helper(args); stmt(... tmp ...)   for multi-statement helpers used in
    expression position of a simple statement (so that statement-level expansion can take over)."""
    out = []
    for s in stmts:
        for fld in ("body", "orelse", "finalbody"):
            if isinstance(getattr(s, fld, None), list) and not isinstance(s, (ast.FunctionDef, ast.ClassDef)):
                setattr(s, fld, _hoist_nested_helper_calls(mod, getattr(s, fld), caller))
        for hnd in getattr(s, "handlers", []) or []:
            hnd.body = _hoist_nested_helper_calls(mod, hnd.body, caller)
        if isinstance(s, (ast.Expr, ast.Assign, ast.AugAssign, ast.Return)):
            top = s.value if not isinstance(s, ast.Expr) else s.value
            pre = []
            for c in list(ast.walk(s)):
                if isinstance(c, ast.Call) and c is not top and not isinstance(getattr(c, "_hoisted", None), bool):
                    h = _module_helper(mod, c.func, caller)
                    if h is not None and h is not caller and _single_expr_helper(h) is None and not _has(h, (ast.Yield, ast.YieldFrom)):
                        # only hoist when evaluation order is not disturbed: the call's arguments are pure
                        if all(_pure_arg(a) for a in c.args) and not c.keywords:
                            tmp = f"_{h.name.strip('_')}_val{next(_counter)}"
                            pre.append(ast.copy_location(ast.Assign(targets=[ast.Name(id=tmp, ctx=ast.Store())], value=_clone(c)), s))
                            # replace c by the temp in s
                            class Rep(ast.NodeTransformer):
                                def visit_Call(self_, n):
                                    if n is c:
                                        return ast.copy_location(ast.Name(id=tmp, ctx=ast.Load()), n)
                                    return self_.generic_visit(n)
                            s = Rep().visit(s)
            out.extend(pre)
        elif isinstance(s, ast.If):
            # a helper call in the test of an if (the test is evaluated first, so hoisting it in front changes nothing)
            pre = []
            for c in list(ast.walk(s.test)):
                if isinstance(c, ast.Call):
                    h = _module_helper(mod, c.func, caller)
                    if h is not None and h is not caller and _single_expr_helper(h) is None and not _has(h, (ast.Yield, ast.YieldFrom)) \
                            and all(_pure_arg(a) for a in c.args) and not c.keywords and (c is s.test or isinstance(s.test, ast.UnaryOp) and s.test.operand is c):
                        tmp = f"_{h.name.strip('_')}_val{next(_counter)}"
                        pre.append(ast.copy_location(ast.Assign(targets=[ast.Name(id=tmp, ctx=ast.Store())], value=_clone(c)), s))
                        repl = ast.copy_location(ast.Name(id=tmp, ctx=ast.Load()), c)
                        if c is s.test:
                            s.test = repl
                        else:
                            s.test.operand = repl
            out.extend(pre)
        elif isinstance(s, ast.For):
            # a helper call in the iterable of a loop (evaluated once, before the loop):  for v in helper(a).items()  ->  tmp = helper(a); for v in tmp.items()
            pre = []
            for c in list(ast.walk(s.iter)):
                if isinstance(c, ast.Call) and c is not s.iter:      # the helper's value is used inside the iterable (h(x).items()); 'for v in h(x)' is expanded as a loop
                    h = _module_helper(mod, c.func, caller)
                    if h is not None and h is not caller and _single_expr_helper(h) is None and not _has(h, (ast.Yield, ast.YieldFrom)) \
                            and all(_pure_arg(a) for a in c.args) and not c.keywords and not pre:
                        tmp = f"_{h.name.strip('_')}_val{next(_counter)}"
                        pre.append(ast.copy_location(ast.Assign(targets=[ast.Name(id=tmp, ctx=ast.Store())], value=_clone(c)), s))

                        class RepI(ast.NodeTransformer):
                            def visit_Call(self_, n):
                                if n is c:
                                    return ast.copy_location(ast.Name(id=tmp, ctx=ast.Load()), n)
                                return self_.generic_visit(n)
                        s.iter = RepI().visit(s.iter)
            out.extend(pre)
        out.append(s)
    return out


def _sink_into_branches(stmts):
    """if c: t = A else: t = B; use(t)   ->   if c: use(A) else: use(B)     (t bound in every branch, used only there)"""
    out = []
    i = 0
    while i < len(stmts):
        s = stmts[i]
        for fld in ("body", "orelse", "finalbody"):
            if isinstance(getattr(s, fld, None), list) and not isinstance(s, (ast.FunctionDef, ast.ClassDef)):
                setattr(s, fld, _sink_into_branches(getattr(s, fld)))
        for hnd in getattr(s, "handlers", []) or []:
            hnd.body = _sink_into_branches(hnd.body)
        nxt = stmts[i + 1] if i + 1 < len(stmts) else None
        done = False
        if isinstance(s, ast.If) and s.orelse and isinstance(nxt, ast.Expr):
            def last_assign(block):
                b = block
                while b and isinstance(b[-1], ast.If) and b[-1].orelse:
                    return None
                if b and isinstance(b[-1], ast.Assign) and len(b[-1].targets) == 1 and isinstance(b[-1].targets[0], ast.Name):
                    return b[-1]
                return None
            leaves = []

            def collect(block):
                if block and isinstance(block[-1], ast.If) and block[-1].orelse:
                    return collect(block[-1].body) and collect(block[-1].orelse)
                a = last_assign(block)
                if a is None:
                    return False
                leaves.append((block, a))
                return True
            if collect(s.body) and collect(s.orelse):
                names = {a.targets[0].id for _, a in leaves}
                if len(names) == 1:
                    t = names.pop()
                    uses = [n for n in ast.walk(nxt) if isinstance(n, ast.Name) and n.id == t]
                    later = any(isinstance(n, ast.Name) and n.id == t for st in stmts[i + 2:] for n in ast.walk(st))
                    if len(uses) == 1 and not later and t.startswith("_"):
                        for block, a in leaves:
                            class Rep(ast.NodeTransformer):
                                def visit_Name(self_, n):
                                    if n.id == t and isinstance(n.ctx, ast.Load):
                                        return _clone(a.value)
                                    return n
                            block[-1] = ast.copy_location(Rep().visit(_clone(nxt)), a)
                        out.append(s)
                        i += 2
                        done = True
        if not done:
            out.append(s)
            i += 1
    return out


def _split_ifexp_calls(stmts):
    """f(A if t else B)  ->  if t: f(A) else: f(B)     for expression statements whose call has that single argument."""
    out = []
    for s in stmts:
        for fld in ("body", "orelse", "finalbody"):
            if isinstance(getattr(s, fld, None), list) and not isinstance(s, (ast.FunctionDef, ast.ClassDef)):
                setattr(s, fld, _split_ifexp_calls(getattr(s, fld)))
        for hnd in getattr(s, "handlers", []) or []:
            hnd.body = _split_ifexp_calls(hnd.body)
        if isinstance(s, ast.Expr) and isinstance(s.value, ast.Call) and len(s.value.args) == 1 and not s.value.keywords \
                and isinstance(s.value.args[0], ast.IfExp) and _pure_arg(s.value.func) \
                and isinstance(s.value.args[0].body, ast.Call) and isinstance(s.value.args[0].orelse, ast.Call):
            c, ie = s.value, s.value.args[0]
            a = ast.copy_location(ast.Expr(value=ast.copy_location(ast.Call(func=_clone(c.func), args=[ie.body], keywords=[]), c)), s)
            b = ast.copy_location(ast.Expr(value=ast.copy_location(ast.Call(func=_clone(c.func), args=[ie.orelse], keywords=[]), c)), s)
            out.extend(_split_ifexp_calls([ast.copy_location(ast.If(test=ie.test, body=[a], orelse=[b]), s)]))
        else:
            out.append(s)
    return out


def _inline_local_closures(fn):
    """def helper(...): return <expr>  defined inside *fn* and only ever called there: the calls are replaced by the
    expression (a closure reads its free variables when it is called, so substituting at the call site is exact)."""
    changed = False
    for _ in range(4):
        nested = []
        for n in ast.walk(fn):
            for fld in ("body", "orelse", "finalbody"):
                lst = getattr(n, fld, None)
                if isinstance(lst, list) and (n is fn or not isinstance(n, (ast.FunctionDef, ast.AsyncFunctionDef, ast.ClassDef, ast.Lambda))):
                    for st in lst:
                        if isinstance(st, ast.FunctionDef):
                            nested.append((lst, st))
        done = False
        for lst, d in nested:
            # directly nested in fn (not inside another nested def)
            expr = _single_expr_helper(d)
            if expr is None or d.decorator_list:
                continue
            a = d.args
            if a.vararg or a.kwarg or a.posonlyargs or a.kwonlyargs:
                continue
            refs = [n for n in ast.walk(fn) if isinstance(n, ast.Name) and n.id == d.name]
            calls = [c for c in ast.walk(fn) if isinstance(c, ast.Call) and isinstance(c.func, ast.Name) and c.func.id == d.name]
            if not calls or len(refs) != len(calls) or any(isinstance(r.ctx, ast.Store) for r in refs):
                continue
            if any(any(x is c for x in ast.walk(d)) for c in calls):
                continue  # recursive
            params = [x.arg for x in a.args]
            defaults = dict(zip(params[len(params) - len(a.defaults):], a.defaults))
            plan = []
            for c in calls:
                if any(k.arg is None for k in c.keywords) or any(isinstance(x, ast.Starred) for x in c.args) or len(c.args) > len(params):
                    plan = None
                    break
                bound = dict(zip(params, c.args))
                for k in c.keywords:
                    bound[k.arg] = k.value
                for p in params:
                    if p not in bound and p in defaults:
                        bound[p] = defaults[p]
                if set(bound) != set(params):
                    plan = None
                    break
                uses = {}
                for n in ast.walk(expr):
                    if isinstance(n, ast.Name) and n.id in bound:
                        uses[n.id] = uses.get(n.id, 0) + 1
                if any(not _pure_arg(v) and uses.get(p, 0) > 1 for p, v in bound.items()):
                    plan = None
                    break
                plan.append((c, bound))
            if not plan:
                continue
            repl = {id(c): _Subst({p: v for p, v in bound.items()}).visit(_clone(expr)) for c, bound in plan}

            class R(ast.NodeTransformer):
                def visit_Call(self_, c):
                    self_.generic_visit(c)
                    return ast.copy_location(repl[id(c)], c) if id(c) in repl else c
            lst.remove(d)
            if not lst:
                lst.append(ast.copy_location(ast.Pass(), d))
            R().visit(fn)
            changed = done = True
            break
        if not done:
            break
    return changed


class _QuantifierNorm(ast.NodeTransformer):
    """not any(not X for ..) -> all(X for ..);  not all(not X for ..) -> any(X for ..);  not not X -> X (in tests)"""

    def visit_UnaryOp(self, n):
        self.generic_visit(n)
        if isinstance(n.op, ast.Not):
            c = n.operand
            if isinstance(c, ast.Call) and isinstance(c.func, ast.Name) and c.func.id in ("any", "all") and len(c.args) == 1 and not c.keywords \
                    and isinstance(c.args[0], (ast.GeneratorExp, ast.ListComp)) and isinstance(c.args[0].elt, ast.UnaryOp) and isinstance(c.args[0].elt.op, ast.Not):
                comp = c.args[0]
                new = type(comp)(elt=comp.elt.operand, generators=comp.generators)
                return ast.copy_location(ast.Call(func=ast.Name(id="all" if c.func.id == "any" else "any", ctx=ast.Load()), args=[new], keywords=[]), n)
        return n


def _propagate_single_use(stmts, fn_loads, fn_stores):
    """x = E; <next statement whose header expression reads x once, and nothing else ever reads x>  ->  E substituted, 'x = E' dropped"""
    out = []
    i = 0
    while i < len(stmts):
        s = stmts[i]
        for fld in ("body", "orelse", "finalbody"):
            if isinstance(getattr(s, fld, None), list) and not isinstance(s, (ast.FunctionDef, ast.ClassDef)):
                setattr(s, fld, _propagate_single_use(getattr(s, fld), fn_loads, fn_stores))
        for hnd in getattr(s, "handlers", []) or []:
            hnd.body = _propagate_single_use(hnd.body, fn_loads, fn_stores)
        nxt = stmts[i + 1] if i + 1 < len(stmts) else None
        if isinstance(s, ast.Assign) and len(s.targets) == 1 and isinstance(s.targets[0], ast.Name) and nxt is not None \
                and fn_loads.get(s.targets[0].id) == 1 and fn_stores.get(s.targets[0].id) == 1 and not _has(s.value, (ast.Yield, ast.Await, ast.NamedExpr, ast.Lambda)):
            x = s.targets[0].id
            header = None
            if isinstance(nxt, (ast.If, ast.While)):
                header = ("test", nxt.test)
            elif isinstance(nxt, ast.Return) and nxt.value is not None:
                header = ("value", nxt.value)
            elif isinstance(nxt, ast.For) and isinstance(nxt.iter, ast.Name) and isinstance(s.value, ast.IfExp):
                header = ("iter", nxt.iter)      # a source chosen by a condition, then iterated
            elif isinstance(nxt, ast.Assign) and not any(isinstance(n, ast.Name) and n.id == x for t in nxt.targets for n in ast.walk(t)):
                header = ("value", nxt.value)
            elif isinstance(nxt, ast.Expr) and isinstance(nxt.value, ast.Call) and _pure_arg(nxt.value.func) and len(nxt.value.args) == 1 and not nxt.value.keywords \
                    and isinstance(nxt.value.args[0], ast.Name) and nxt.value.args[0].id == x and isinstance(s.value, ast.IfExp):
                header = ("value", nxt.value)        # v = A if c else B; f(v): the choice is made in the call (and split into two calls afterwards)
            if header is not None and any(isinstance(c_, ast.Call) and isinstance(c_.func, ast.Name) and c_.func.id == x for c_ in ast.walk(header[1])):
                header = None      # the local is a callable that is chosen first and called then: keep the two steps
            if header is not None and sum(1 for n in ast.walk(header[1]) if isinstance(n, ast.Name) and n.id == x and isinstance(n.ctx, ast.Load)) == 1 \
                    and not any(isinstance(c, (ast.ListComp, ast.SetComp, ast.DictComp, ast.GeneratorExp, ast.Lambda)) and any(isinstance(n, ast.Name) and n.id == x for n in ast.walk(c))
                                for c in ast.walk(header[1])):
                setattr(nxt, header[0], _Subst({x: s.value}).visit(header[1]))
                i += 1
                continue
        out.append(s)
        i += 1
    return out


def _propagate_pure_locals(fn):
    """x = f'..{a}..' / arithmetic over names, x and the names it reads bound once in the function: reads of x become the expression"""
    stores, loads = {}, {}
    for n in ast.walk(fn):
        if isinstance(n, ast.Name):
            d = stores if isinstance(n.ctx, (ast.Store, ast.Del)) else loads
            d[n.id] = d.get(n.id, 0) + 1
    params = {a.arg for a in fn.args.args + fn.args.kwonlyargs}
    cands = {}
    for st in ast.walk(fn):
        if isinstance(st, ast.Assign) and len(st.targets) == 1 and isinstance(st.targets[0], ast.Name) and isinstance(st.value, (ast.JoinedStr, ast.BinOp)):
            x = st.targets[0].id
            if stores.get(x) != 1 or x in params or _has(st.value, (ast.Call, ast.Await, ast.Yield, ast.NamedExpr, ast.Lambda, ast.Subscript)):
                continue
            free = {n.id for n in ast.walk(st.value) if isinstance(n, ast.Name)}
            if all((stores.get(f, 0) == 1 and f not in params) or (f in params and stores.get(f, 0) == 0) for f in free):
                cands[x] = st
    if not cands:
        return fn

    class R(ast.NodeTransformer):
        def visit_Name(self, n):
            if isinstance(n.ctx, ast.Load) and n.id in cands:
                return ast.copy_location(_clone(cands[n.id].value), n)
            return n

        def visit_Assign(self, a):
            if any(a is st for st in cands.values()):
                return ast.copy_location(ast.Pass(), a)
            return self.generic_visit(a)
    return R().visit(fn)


def _nest_guard_continue(stmts, in_loop=False):
    """inside a loop body:  if C: continue; REST   ->   if not C: REST     (same paths, one shape for the rules)"""
    out = []
    for i, s in enumerate(stmts):
        loop = isinstance(s, (ast.For, ast.While))
        for fld in ("body", "orelse", "finalbody"):
            if isinstance(getattr(s, fld, None), list) and not isinstance(s, (ast.FunctionDef, ast.ClassDef)):
                setattr(s, fld, _nest_guard_continue(getattr(s, fld), (loop and fld == "body") or (in_loop and not loop)))
        for hnd in getattr(s, "handlers", []) or []:
            hnd.body = _nest_guard_continue(hnd.body, in_loop)
        if in_loop and isinstance(s, ast.If) and not s.orelse and len(s.body) == 1 and isinstance(s.body[0], ast.Continue) and i + 1 < len(stmts):
            rest = _nest_guard_continue(stmts[i + 1:], in_loop)
            t = s.test
            neg = t.operand if isinstance(t, ast.UnaryOp) and isinstance(t.op, ast.Not) else ast.UnaryOp(op=ast.Not(), operand=t)
            out.append(ast.copy_location(ast.If(test=neg, body=rest, orelse=[]), s))
            return out
        if in_loop and isinstance(s, ast.If) and not s.orelse and len(s.body) > 1 and isinstance(s.body[-1], ast.Continue) and i + 1 < len(stmts) \
                and not any(isinstance(x, (ast.FunctionDef, ast.ClassDef)) for x in stmts[i + 1:]):
            # if C: S; continue      REST        ->      if C: S  else: REST
            rest = _nest_guard_continue(stmts[i + 1:], in_loop)
            out.append(ast.copy_location(ast.If(test=s.test, body=s.body[:-1], orelse=rest), s))
            return out
        out.append(s)
    return out


def _loop_over_conditional_source(stmts):
    """for v in (A if C else []): BODY   ->   if C: for v in A: BODY      (and the mirrored form)"""
    out = []
    for s in stmts:
        for fld in ("body", "orelse", "finalbody"):
            if isinstance(getattr(s, fld, None), list) and not isinstance(s, (ast.FunctionDef, ast.ClassDef)):
                setattr(s, fld, _loop_over_conditional_source(getattr(s, fld)))
        for hnd in getattr(s, "handlers", []) or []:
            hnd.body = _loop_over_conditional_source(hnd.body)
        if isinstance(s, ast.For) and isinstance(s.iter, ast.IfExp) and not s.orelse:
            def empty(e):
                return isinstance(e, (ast.List, ast.Tuple)) and not e.elts or isinstance(e, ast.Constant) and e.value in ("", ()) \
                    or isinstance(e, ast.Call) and norm_(e) in ("list()", "tuple()", "set()", "iter(())")
            it = s.iter
            if empty(it.orelse) and not empty(it.body):
                s.iter = it.body
                out.append(ast.copy_location(ast.If(test=it.test, body=[s], orelse=[]), s))
                continue
            if empty(it.body) and not empty(it.orelse):
                s.iter = it.orelse
                t = it.test
                neg = t.operand if isinstance(t, ast.UnaryOp) and isinstance(t.op, ast.Not) else ast.UnaryOp(op=ast.Not(), operand=t)
                out.append(ast.copy_location(ast.If(test=neg, body=[s], orelse=[]), s))
                continue
        out.append(s)
    return out


def _sort_then_loop(stmts):
    """X.sort(key=K, reverse=R); for v in X: BODY   ->   for v in sorted(X, key=K, reverse=R): BODY
    when X is a local list that is not used between the two statements, in BODY, or afterwards."""
    out = list(stmts)
    for s in out:
        for fld in ("body", "orelse", "finalbody"):
            if isinstance(getattr(s, fld, None), list) and not isinstance(s, (ast.FunctionDef, ast.ClassDef)):
                setattr(s, fld, _sort_then_loop(getattr(s, fld)))
        for hnd in getattr(s, "handlers", []) or []:
            hnd.body = _sort_then_loop(hnd.body)
    i = 0
    while i < len(out):
        s = out[i]
        c = s.value if isinstance(s, ast.Expr) else None
        if isinstance(c, ast.Call) and isinstance(c.func, ast.Attribute) and c.func.attr == "sort" and isinstance(c.func.value, ast.Name) and not c.args:
            x = c.func.value.id
            for j in range(i + 1, len(out)):
                t = out[j]
                uses = [n for n in ast.walk(t) if isinstance(n, ast.Name) and n.id == x]
                if isinstance(t, ast.For) and isinstance(t.iter, ast.Name) and t.iter.id == x and len(uses) == 1:
                    later = [n for k in range(j + 1, len(out)) for n in ast.walk(out[k]) if isinstance(n, ast.Name) and n.id == x]
                    if not later:
                        t.iter = ast.copy_location(ast.Call(func=ast.Name(id="sorted", ctx=ast.Load()), args=[ast.Name(id=x, ctx=ast.Load())],
                                                            keywords=[_clone(k) for k in c.keywords]), t.iter)
                        del out[i]
                        i -= 1
                    break
                if uses:
                    break
        i += 1
    return out


def _nest_guard_return(fn):
    """In a function that returns no value:   if C: S; return   REST      ->      if C: S  else: REST
    (a guard clause and the nested form are the same paths; the rules see one shape).  Only at the top level of the
    function body and inside if-arms reached that way, never inside loops, try or with."""
    rets = [r for r in ast.walk(fn) if isinstance(r, ast.Return) and _owner(r, fn)]
    if not rets or any(not (r.value is None or (isinstance(r.value, ast.Constant) and r.value.value is None)) for r in rets):
        return fn
    if any(isinstance(x, (ast.Yield, ast.YieldFrom)) for x in ast.walk(fn)):
        return fn

    def bare(st):
        return isinstance(st, ast.Return)

    def nest(stmts):
        out = []
        for i, s in enumerate(stmts):
            if isinstance(s, ast.If):
                s.body = nest(s.body)
                s.orelse = nest(s.orelse)
                if i + 1 < len(stmts) and s.body and bare(s.body[-1]) and not s.orelse:
                    rest = nest(stmts[i + 1:])
                    body = s.body[:-1]
                    if body:
                        out.append(ast.copy_location(ast.If(test=s.test, body=body, orelse=rest), s))
                    else:
                        t = s.test
                        neg = t.operand if isinstance(t, ast.UnaryOp) and isinstance(t.op, ast.Not) else ast.UnaryOp(op=ast.Not(), operand=t)
                        out.append(ast.copy_location(ast.If(test=neg, body=rest, orelse=[]), s))
                    return out
                if i + 1 < len(stmts) and s.orelse and bare(s.orelse[-1]) and s.body and not bare(s.body[-1]):
                    rest = nest(stmts[i + 1:])
                    out.append(ast.copy_location(ast.If(test=s.test, body=s.body + rest, orelse=s.orelse[:-1] or [ast.Pass()]), s))
                    return out
            out.append(s)
        # a bare return as the very last statement of the list falls off the end anyway (only at function level)
        return out
    fn.body = nest(fn.body)
    if len(fn.body) > 1 and bare(fn.body[-1]):
        fn.body = fn.body[:-1]
    return fn


def _owner(node, fn):
    p = getattr(node, "parent", None)
    while p is not None and p is not fn:
        if isinstance(p, (ast.FunctionDef, ast.AsyncFunctionDef, ast.Lambda)):
            return False
        p = getattr(p, "parent", None)
    return True


def _desugar_extend(stmts):
    """X.extend(E for v in IT if C)   ->   for v in IT: if C: X.append(E)"""
    out = []
    for s in stmts:
        for fld in ("body", "orelse", "finalbody"):
            if isinstance(getattr(s, fld, None), list) and not isinstance(s, (ast.FunctionDef, ast.ClassDef)):
                setattr(s, fld, _desugar_extend(getattr(s, fld)))
        for hnd in getattr(s, "handlers", []) or []:
            hnd.body = _desugar_extend(hnd.body)
        c = s.value if isinstance(s, ast.Expr) else None
        if isinstance(c, ast.Call) and isinstance(c.func, ast.Attribute) and c.func.attr in ("extend", "update") and len(c.args) == 1 and not c.keywords \
                and isinstance(c.args[0], (ast.GeneratorExp, ast.ListComp, ast.SetComp)) and _pure_arg(c.func.value) and not _has(c.args[0], (ast.NamedExpr, ast.Lambda)):
            comp = c.args[0]
            recv = norm_(c.func.value)
            if not any(norm_(n) == recv for n in ast.walk(comp) if isinstance(n, (ast.Name, ast.Attribute))):
                add = "append" if c.func.attr == "extend" else "add"
                inner = [ast.copy_location(ast.Expr(value=ast.Call(func=ast.Attribute(value=_clone(c.func.value), attr=add, ctx=ast.Load()), args=[comp.elt], keywords=[])), s)]
                for gen in reversed(comp.generators):
                    for cond in reversed(gen.ifs):
                        inner = [ast.copy_location(ast.If(test=cond, body=inner, orelse=[]), s)]
                    inner = [ast.copy_location(ast.For(target=gen.target, iter=gen.iter, body=inner, orelse=[]), s)]
                out.append(inner[0])
                continue
        out.append(s)
    return out


def _desugar_union_star(stmts):
    """x = set().union(*(E for v in IT))   ->   x = set(); for v in IT: x = x.union(E)"""
    out = []
    for s in stmts:
        for fld in ("body", "orelse", "finalbody"):
            if isinstance(getattr(s, fld, None), list) and not isinstance(s, (ast.FunctionDef, ast.ClassDef)):
                setattr(s, fld, _desugar_union_star(getattr(s, fld)))
        for hnd in getattr(s, "handlers", []) or []:
            hnd.body = _desugar_union_star(hnd.body)
        v = s.value if isinstance(s, ast.Assign) and len(s.targets) == 1 and isinstance(s.targets[0], ast.Name) else None
        if isinstance(v, ast.Call) and isinstance(v.func, ast.Attribute) and v.func.attr == "union" and isinstance(v.func.value, ast.Call) and norm_(v.func.value) == "set()" \
                and len(v.args) == 1 and isinstance(v.args[0], ast.Starred) and isinstance(v.args[0].value, (ast.GeneratorExp, ast.ListComp)) and len(v.args[0].value.generators) == 1:
            comp = v.args[0].value
            g0 = comp.generators[0]
            x = s.targets[0].id
            if not any(isinstance(n, ast.Name) and n.id == x for n in ast.walk(comp)):
                step = ast.copy_location(ast.Assign(targets=[ast.Name(id=x, ctx=ast.Store())],
                                                    value=ast.Call(func=ast.Attribute(value=ast.Name(id=x, ctx=ast.Load()), attr="union", ctx=ast.Load()), args=[comp.elt], keywords=[])), s)
                inner = [step]
                for cond in reversed(g0.ifs):
                    inner = [ast.copy_location(ast.If(test=cond, body=inner, orelse=[]), s)]
                out.append(ast.copy_location(ast.Assign(targets=[ast.Name(id=x, ctx=ast.Store())], value=ast.Call(func=ast.Name(id="set", ctx=ast.Load()), args=[], keywords=[])), s))
                out.append(ast.copy_location(ast.For(target=g0.target, iter=g0.iter, body=inner, orelse=[]), s))
                continue
        out.append(s)
    return out


class _DictCallToDisplay(ast.NodeTransformer):
    """dict(a=x, b=y)  ->  {'a': x, 'b': y}"""

    def visit_Call(self, c):
        self.generic_visit(c)
        if isinstance(c.func, ast.Name) and c.func.id == "dict" and not c.args and c.keywords and all(k.arg is not None for k in c.keywords):
            return ast.copy_location(ast.Dict(keys=[ast.Constant(value=k.arg) for k in c.keywords], values=[k.value for k in c.keywords]), c)
        return c


def _split_tuple_assign(stmts):
    """a, b = x, y  ->  a = x; b = y   when no target name is read on the right-hand side (so the order does not matter)"""
    out = []
    for s in stmts:
        for fld in ("body", "orelse", "finalbody"):
            if isinstance(getattr(s, fld, None), list) and not isinstance(s, (ast.FunctionDef, ast.ClassDef)):
                setattr(s, fld, _split_tuple_assign(getattr(s, fld)))
        for hnd in getattr(s, "handlers", []) or []:
            hnd.body = _split_tuple_assign(hnd.body)
        if isinstance(s, ast.Assign) and len(s.targets) == 1 and isinstance(s.targets[0], ast.Tuple) and isinstance(s.value, ast.Tuple) \
                and len(s.targets[0].elts) == len(s.value.elts) and all(isinstance(t, ast.Name) for t in s.targets[0].elts):
            tn = {t.id for t in s.targets[0].elts}
            if not any(isinstance(n, ast.Name) and n.id in tn for n in ast.walk(s.value)) and len(tn) == len(s.targets[0].elts):
                for t, v in zip(s.targets[0].elts, s.value.elts):
                    out.append(ast.copy_location(ast.Assign(targets=[ast.Name(id=t.id, ctx=ast.Store())], value=v), s))
                continue
        out.append(s)
    return out


class _FormatToFString(ast.NodeTransformer):
    """'..{}..{:X}..'.format(a, b)  ->  f'..{a}..{b:X}..'   (positional fields only; anything else is left alone)"""

    def visit_Call(self, c):
        self.generic_visit(c)
        if not (isinstance(c.func, ast.Attribute) and c.func.attr == "format" and isinstance(c.func.value, ast.Constant) and isinstance(c.func.value.value, str)
                and not c.keywords and not any(isinstance(a, ast.Starred) for a in c.args)):
            return c
        import string
        try:
            fields = list(string.Formatter().parse(c.func.value.value))
        except ValueError:
            return c
        values, auto, used = [], 0, set()
        for lit, name, spec, conv in fields:
            if lit:
                values.append(ast.Constant(value=lit))
            if name is None:
                continue
            if name == "":
                idx = auto
                auto += 1
            elif name.isdigit():
                idx = int(name)
            else:
                return c
            if idx >= len(c.args) or (spec and ("{" in spec or "}" in spec)):
                return c
            used.add(idx)
            values.append(ast.FormattedValue(value=_clone(c.args[idx]), conversion=ord(conv) if conv else -1,
                                             format_spec=ast.JoinedStr(values=[ast.Constant(value=spec)]) if spec else None))
        if used != set(range(len(c.args))):
            return c
        return ast.copy_location(ast.JoinedStr(values=values), c)


def _merge_if_calls(stmts):
    """if c: f(A) else: f(B)   (same callee, one argument differs, both arguments are plain values)   ->   f(A if c else B)"""
    out = []
    for s in stmts:
        for fld in ("body", "orelse", "finalbody"):
            if isinstance(getattr(s, fld, None), list) and not isinstance(s, (ast.FunctionDef, ast.ClassDef)):
                setattr(s, fld, _merge_if_calls(getattr(s, fld)))
        for hnd in getattr(s, "handlers", []) or []:
            hnd.body = _merge_if_calls(hnd.body)
        if isinstance(s, ast.If) and len(s.body) == 1 and len(s.orelse) == 1 and all(isinstance(x, ast.Expr) and isinstance(x.value, ast.Call) for x in (s.body[0], s.orelse[0])):
            a, b = s.body[0].value, s.orelse[0].value
            if norm_(a.func) == norm_(b.func) and len(a.args) == len(b.args) and not a.keywords and not b.keywords and _pure_arg(a.func):
                diff = [i for i, (x, y) in enumerate(zip(a.args, b.args)) if norm_(x) != norm_(y)]
                if len(diff) == 1 and all(_pure_arg(z) for z in (a.args[diff[0]], b.args[diff[0]])):
                    args = list(a.args)
                    args[diff[0]] = ast.IfExp(test=s.test, body=a.args[diff[0]], orelse=b.args[diff[0]])
                    out.append(ast.copy_location(ast.Expr(value=ast.Call(func=a.func, args=args, keywords=[])), s))
                    continue
        out.append(s)
    return out


def _propagate_option_flags(fn):
    """flag = <...>.options.<field>  (bound once)  ->  uses of flag replaced by the attribute chain."""
    stores = {}
    for n in ast.walk(fn):
        if isinstance(n, ast.Name) and isinstance(n.ctx, ast.Store):
            stores[n.id] = stores.get(n.id, 0) + 1
    flags = {}
    params = {a.arg for a in fn.args.args}

    def stable(e):
        """pure attribute chains / their boolean combinations over names that are bound at most once"""
        if isinstance(e, ast.BoolOp):
            return all(stable(v) for v in e.values)
        if isinstance(e, ast.UnaryOp) and isinstance(e.op, ast.Not):
            return stable(e.operand)
        if isinstance(e, ast.Call) and isinstance(e.func, ast.Name) and e.func.id == "bool" and len(e.args) == 1 and not e.keywords:
            return stable(e.args[0])
        if isinstance(e, ast.Attribute) and _pure_arg(e):
            root = e
            while isinstance(root, (ast.Attribute, ast.Subscript)):
                root = root.value
            return isinstance(root, ast.Name) and (stores.get(root.id, 0) <= 1 if root.id not in params else stores.get(root.id, 0) == 0)
        return False

    def unbool(e):
        if isinstance(e, ast.Call) and isinstance(e.func, ast.Name) and e.func.id == "bool" and len(e.args) == 1:
            return unbool(e.args[0])
        if isinstance(e, ast.BoolOp):
            return ast.BoolOp(op=e.op, values=[unbool(v) for v in e.values])
        if isinstance(e, ast.UnaryOp) and isinstance(e.op, ast.Not):
            return ast.UnaryOp(op=ast.Not(), operand=unbool(e.operand))
        return e
    for st in ast.walk(fn):
        if isinstance(st, ast.Assign) and len(st.targets) == 1 and isinstance(st.targets[0], ast.Name) and stores.get(st.targets[0].id) == 1 \
                and isinstance(st.value, ast.Attribute) and _pure_arg(st.value) and isinstance(st.value.value, ast.Attribute) and st.value.value.attr == "options":
            flags[st.targets[0].id] = st.value
        elif isinstance(st, ast.Assign) and len(st.targets) == 1 and isinstance(st.targets[0], ast.Name) and stores.get(st.targets[0].id) == 1 \
                and st.targets[0].id not in params and not isinstance(st.value, ast.Attribute) and stable(st.value) and ".options." in norm_(st.value):
            # flag = bool(<...>.options.x and other.y): a boolean over stable attributes, only ever tested
            name = st.targets[0].id
            uses = [n for n in ast.walk(fn) if isinstance(n, ast.Name) and n.id == name and isinstance(n.ctx, ast.Load)]
            tested = all(isinstance(getattr(u, "parent", None), (ast.If, ast.IfExp, ast.BoolOp, ast.UnaryOp, ast.While)) for u in uses)
            if tested:
                flags[name] = unbool(st.value)

    class R(ast.NodeTransformer):
        def visit_Name(self, n):
            if isinstance(n.ctx, ast.Load) and n.id in flags:
                return ast.copy_location(_clone(flags[n.id]), n)
            return n
    return R().visit(fn) if flags else fn


def _walk_blocks(stmts, f):
    """apply f to every statement list (innermost first), not entering nested defs / classes"""
    for s in stmts:
        if isinstance(s, (ast.FunctionDef, ast.AsyncFunctionDef, ast.ClassDef)):
            continue
        for fld in ("body", "orelse", "finalbody"):
            b = getattr(s, fld, None)
            if isinstance(b, list) and b and isinstance(b[0], ast.stmt):
                setattr(s, fld, _walk_blocks(b, f))
        for hnd in getattr(s, "handlers", []) or []:
            hnd.body = _walk_blocks(hnd.body, f)
        for cs in getattr(s, "cases", []) or []:
            cs.body = _walk_blocks(cs.body, f)
    return f(stmts)


def _return_temp(fn):
    """x = E; return x   ->   return E      (x is read nowhere else)"""
    loads = {}
    for n in ast.walk(fn):
        if isinstance(n, ast.Name) and isinstance(n.ctx, ast.Load):
            loads[n.id] = loads.get(n.id, 0) + 1
    pairs = {}

    def count(stmts):
        for a, b in zip(stmts, stmts[1:]):
            if isinstance(a, ast.Assign) and len(a.targets) == 1 and isinstance(a.targets[0], ast.Name) and isinstance(b, ast.Return) \
                    and isinstance(b.value, ast.Name) and b.value.id == a.targets[0].id:
                pairs[b.value.id] = pairs.get(b.value.id, 0) + 1
        return stmts
    fn.body = _walk_blocks(fn.body, count)
    ok = {x for x, k in pairs.items() if loads.get(x) == k}
    if not ok:
        return fn

    def fold(stmts):
        out = []
        i = 0
        while i < len(stmts):
            a = stmts[i]
            b = stmts[i + 1] if i + 1 < len(stmts) else None
            if isinstance(a, ast.Assign) and len(a.targets) == 1 and isinstance(a.targets[0], ast.Name) and a.targets[0].id in ok and isinstance(b, ast.Return) \
                    and isinstance(b.value, ast.Name) and b.value.id == a.targets[0].id:
                out.append(ast.copy_location(ast.Return(value=a.value), a))
                i += 2
                continue
            out.append(a)
            i += 1
        return out
    fn.body = _walk_blocks(fn.body, fold)
    return fn


def _positive_tests(fn):
    """if not C: A else: B   ->   if C: B else: A       (an else arm exists; one polarity for the rules)"""
    def f(stmts):
        for s in stmts:
            if isinstance(s, ast.If) and s.orelse and isinstance(s.test, ast.UnaryOp) and isinstance(s.test.op, ast.Not) \
                    and not (len(s.orelse) == 1 and isinstance(s.orelse[0], ast.If)):
                s.test = s.test.operand
                s.body, s.orelse = s.orelse, s.body
        return stmts
    fn.body = _walk_blocks(fn.body, f)
    return fn


def _merge_nested_ifs(fn):
    """if A: (if B: S)   ->   if A and B: S         (neither has an else arm)"""
    def f(stmts):
        for s in stmts:
            while isinstance(s, ast.If) and not s.orelse and len(s.body) == 1 and isinstance(s.body[0], ast.If) and not s.body[0].orelse:
                inner = s.body[0]
                left = list(s.test.values) if isinstance(s.test, ast.BoolOp) and isinstance(s.test.op, ast.And) else [s.test]
                right = list(inner.test.values) if isinstance(inner.test, ast.BoolOp) and isinstance(inner.test.op, ast.And) else [inner.test]
                s.test = ast.copy_location(ast.BoolOp(op=ast.And(), values=left + right), s.test)
                s.body = inner.body
        return stmts
    fn.body = _walk_blocks(fn.body, f)
    return fn


def _else_after_return(fn):
    """if C: ...; return X  else: REST    ->    if C: ...; return X      REST      (the guard-clause shape)"""
    chained = set()
    for n in ast.walk(fn):
        if isinstance(n, ast.If) and len(n.orelse) == 1 and isinstance(n.orelse[0], ast.If):
            chained.add(id(n.orelse[0]))      # an elif arm: the chain keeps its shape
            chained.add(id(n))

    def f(stmts):
        out = []
        for s in stmts:
            out.append(s)
            if id(s) in chained:
                continue
            if isinstance(s, ast.If) and s.orelse and s.body and not isinstance(s.body[-1], (ast.Return, ast.Raise)) and isinstance(s.orelse[-1], (ast.Return, ast.Raise)):
                t = s.test
                s.test = t.operand if isinstance(t, ast.UnaryOp) and isinstance(t.op, ast.Not) else ast.copy_location(ast.UnaryOp(op=ast.Not(), operand=t), t)
                s.body, s.orelse = s.orelse, s.body
            if isinstance(s, ast.If) and s.orelse and s.body and isinstance(s.body[-1], (ast.Return, ast.Raise)):
                rest = s.orelse
                s.orelse = []
                out.extend(f(rest))
        return out
    fn.body = _walk_blocks(fn.body, f)
    return fn


def _assign_by_condition(fn):
    """if C: x = A else: x = B    ->    x = A if C else B"""
    def f(stmts):
        out = []
        for s in stmts:
            if isinstance(s, ast.If) and len(s.body) == 1 and len(s.orelse) == 1 and all(
                    isinstance(a, ast.Assign) and len(a.targets) == 1 and isinstance(a.targets[0], ast.Name) for a in (s.body[0], s.orelse[0])) \
                    and s.body[0].targets[0].id == s.orelse[0].targets[0].id:
                v = ast.copy_location(ast.IfExp(test=s.test, body=s.body[0].value, orelse=s.orelse[0].value), s)
                out.append(ast.copy_location(ast.Assign(targets=[s.body[0].targets[0]], value=v), s))
            else:
                out.append(s)
        return out
    fn.body = _walk_blocks(fn.body, f)
    return fn


def _allocator_roles(fn):
    """register_assignment.assign_registers / assign_colors: the rules speak of the allocator's tables by their role.  The locals that
    play these roles are found by what is done with them and given the role's name, so that a rename of a local changes nothing:
      called_from                 D in   D.get(<scope>, ..).issubset(..)              (the order in which scopes are processed)
      blocked_registers_by_scope  D in   for c in called_from.get(..): .. D.get(c, ..)  (what the callers hand down)
      registers_by_scope          D in   for s in data.symbols: .. D.get(s, ..)        (the result)
      mapping                     D in   D[<sym>.code_expr] = f"r{n}"
      free_colors / active        assign_colors: F in <sym>._color = F.pop(),  A in A.append((<end>, <sym>._color))"""
    found = {}

    def note(role, name):
        found.setdefault(role, name)
    for n in ast.walk(fn):
        if isinstance(n, ast.Call) and isinstance(n.func, ast.Attribute) and n.func.attr == "issubset" and isinstance(n.func.value, ast.Call) \
                and isinstance(n.func.value.func, ast.Attribute) and n.func.value.func.attr == "get" and isinstance(n.func.value.func.value, ast.Name):
            note("called_from", n.func.value.func.value.id)
        if isinstance(n, ast.Assign) and isinstance(n.value, ast.JoinedStr) and n.value.values and isinstance(n.value.values[0], ast.Constant) and n.value.values[0].value == "r":
            for t in n.targets:
                if isinstance(t, ast.Subscript) and isinstance(t.value, ast.Name):
                    note("mapping", t.value.id)
        if isinstance(n, ast.Assign) and any(isinstance(t, ast.Attribute) and t.attr == "_color" for t in n.targets) and isinstance(n.value, ast.Call) \
                and isinstance(n.value.func, ast.Attribute) and n.value.func.attr == "pop" and isinstance(n.value.func.value, ast.Name):
            note("free_colors", n.value.func.value.id)
        if isinstance(n, ast.Call) and isinstance(n.func, ast.Attribute) and n.func.attr == "append" and isinstance(n.func.value, ast.Name) and n.args \
                and isinstance(n.args[0], ast.Tuple) and len(n.args[0].elts) == 2 and norm_(n.args[0].elts[1]).endswith("._color"):
            note("active", n.func.value.id)
    cf = found.get("called_from")
    for lp in ast.walk(fn):
        if not isinstance(lp, ast.For) or not isinstance(lp.target, ast.Name):
            continue
        it = lp.iter
        gets = [c for c in ast.walk(lp) if isinstance(c, ast.Call) and isinstance(c.func, ast.Attribute) and c.func.attr == "get" and isinstance(c.func.value, ast.Name)
                and c.args and isinstance(c.args[0], ast.Name) and c.args[0].id == lp.target.id]
        if cf and isinstance(it, ast.Call) and isinstance(it.func, ast.Attribute) and it.func.attr == "get" and isinstance(it.func.value, ast.Name) and it.func.value.id == cf:
            for c in gets:
                note("blocked_registers_by_scope", c.func.value.id)
        if norm_(it).endswith("data.symbols"):
            for c in gets:
                note("registers_by_scope", c.func.value.id)
    ren = {v: k for k, v in found.items() if v != k}
    if not ren:
        return fn
    taken = {n.id for n in ast.walk(fn) if isinstance(n, ast.Name)} | {a.arg for a in fn.args.args}
    if any(k in taken for k in ren.values()) or len(set(found.values())) != len(found):
        return fn      # a role name is in use for something else: leave the function as written
    return _Rename(ren).visit(fn)


def _lookup_or_default(fn):
    """if k in T: return T[k]      return D        ->      return T.get(k, D)          (T a plain name, D without side effects)
       return T[k] if k in T else D               ->      return T.get(k, D)"""
    def as_get(test, hit, default):
        if isinstance(test, ast.Compare) and len(test.ops) == 1 and isinstance(test.ops[0], ast.In) and isinstance(test.comparators[0], ast.Name) \
                and isinstance(hit, ast.Subscript) and norm_(hit.value) == norm_(test.comparators[0]) and norm_(hit.slice) == norm_(test.left) \
                and isinstance(test.left, ast.Name) and (_pure_arg(default) or isinstance(default, ast.Tuple) and all(_pure_arg(x) for x in default.elts)):
            return ast.Call(func=ast.Attribute(value=_clone(test.comparators[0]), attr="get", ctx=ast.Load()), args=[_clone(test.left), default], keywords=[])
        return None

    def f(stmts):
        out = []
        i = 0
        while i < len(stmts):
            s = stmts[i]
            nxt = stmts[i + 1] if i + 1 < len(stmts) else None
            if isinstance(s, ast.If) and not s.orelse and len(s.body) == 1 and isinstance(s.body[0], ast.Return) and s.body[0].value is not None \
                    and isinstance(nxt, ast.Return) and nxt.value is not None:
                g = as_get(s.test, s.body[0].value, nxt.value)
                if g is not None:
                    out.append(ast.copy_location(ast.Return(value=ast.copy_location(g, s)), s))
                    i += 2
                    continue
            if isinstance(s, ast.Return) and isinstance(s.value, ast.IfExp):
                g = as_get(s.value.test, s.value.body, s.value.orelse)
                if g is not None:
                    s.value = ast.copy_location(g, s.value)
            out.append(s)
            i += 1
        return out
    fn.body = _walk_blocks(fn.body, f)
    return fn


_SHAPE_STEPS = os.environ.get("SA_SHAPE_STEPS", "ret,pos,merge,else,cond,lookup").split(",")


def _shape_normalise(fn):
    for key, step in (("ret", _return_temp), ("else", _else_after_return), ("lookup", _lookup_or_default), ("pos", _positive_tests), ("cond", _assign_by_condition), ("merge", _merge_nested_ifs)):
        if key in _SHAPE_STEPS:
            fn = step(fn)
    return fn



def canonical_function(mod, fn, depth=3):
    """inline helpers, desugar comprehension-fed loops, propagate module literals and trivial aliases."""
    cache = getattr(mod, "_canon_cache", None)
    if cache is None:
        cache = mod._canon_cache = {}
    if id(fn) in cache:
        return cache[id(fn)][0]
    pre = _clone(fn)
    pre.qual, pre.module, pre.cls = fn.qual, fn.module, getattr(fn, "cls", None)
    pre = _shape_normalise(pre)
    if getattr(mod, "name", "") == "register_assignment" and fn.qual in ("assign_registers", "assign_colors"):
        pre = _allocator_roles(pre)
    _inline_local_closures(pre)
    _expand_dispatch_tables(mod, pre)
    pre.body = _desugar_reduce(pre.body)
    pre.body = _hoist_nested_helper_calls(mod, pre.body, fn)
    hoisted = ast.dump(pre) != ast.dump(fn)
    base = inline_function(mod, pre if hoisted else fn, depth)
    new = _clone(base) if base is fn else base
    new.body = _sink_into_branches(new.body)
    elog = []
    new = _ExprInline(mod, fn, elog, 2).visit(new)
    if elog:
        # expression helpers may have exposed new statement-level helper calls / nothing else to do
        new.inlined_helpers = sorted(set(getattr(base, "inlined_helpers", [])) | set(elog))
    before = ast.dump(new)
    new.body = _desugar_comprehension_loops(new.body)
    new.body = _desugar_union_star(new.body)
    _ld0, _st0 = {}, {}
    for _n in ast.walk(new):
        if isinstance(_n, ast.Name):
            _d = _st0 if isinstance(_n.ctx, (ast.Store, ast.Del)) else _ld0
            _d[_n.id] = _d.get(_n.id, 0) + 1
    new.body = _propagate_single_use(new.body, _ld0, _st0)
    new = _QuantifierNorm().visit(new)
    new.body = _desugar_any_all(new.body)
    new.body = _desugar_next_find(new.body)
    new.body = _desugar_iter_sentinel(new.body)
    new.body = _desugar_union_star(new.body)
    new.body = _desugar_extend(new.body)
    new.body = _nest_guard_continue(new.body)
    new = _nest_guard_return(new)
    new.body = _sort_then_loop(new.body)
    new.body = _loop_over_conditional_source(new.body)
    new = _QuantifierNorm().visit(new)
    _ld, _st = {}, {}
    for _n in ast.walk(new):
        if isinstance(_n, ast.Name):
            _d = _st if isinstance(_n.ctx, (ast.Store, ast.Del)) else _ld
            _d[_n.id] = _d.get(_n.id, 0) + 1
    new.body = _propagate_single_use(new.body, _ld, _st)
    new.body = _split_tuple_assign(new.body)
    new = _QuantifierNorm().visit(new)
    new = _propagate_pure_locals(new)
    new.body = _split_ifexp_calls(new.body)
    new.body = _merge_if_calls(new.body)
    new = _FormatToFString().visit(new)
    new = _DictCallToDisplay().visit(new)
    new = _propagate_option_flags(new)
    local_names = _assigned_names(new)
    new = _ConstProp(_module_constants(mod), local_names).visit(new)
    new = _copy_propagate(new, mod)
    if ast.dump(new) == ast.dump(fn):
        cache[id(fn)] = (fn, fn)
        return fn
    ast.fix_missing_locations(new)
    for n in ast.walk(new):
        for c in ast.iter_child_nodes(n):
            c.parent = n
    new.parent = getattr(fn, "parent", None)
    new.qual, new.module, new.cls = fn.qual, fn.module, getattr(fn, "cls", None)
    new.inlined_helpers = sorted(set(getattr(base, "inlined_helpers", [])) | set(getattr(new, "inlined_helpers", [])))
    cache[id(fn)] = (new, fn)
    return new
