"""E3 ConstEval: finite value sets for expressions inside one function.

Abstract values are frozensets of concrete Python values (str, int, float,
bool, None, tuples thereof, and the markers below) or TOP.  The evaluator knows
reaching definitions (E9), guard refinement (``if x == "sub"``, ``if x is
None``), dict-literal tables, local lambdas, f-strings, ``+`` on strings,
``IfExp`` and calls of the repository's own table helpers (functions whose body
is ``return {...}[p]`` or ``return {...}.get(p, default)``).
"""
from __future__ import annotations

import ast
from .model import Repo, Module, norm, enclosing_def
from .cfg import CFG, ReachingDefs, decompose

TOP = None  # unknown value set


class Hole:
    """An unknown piece inside a string (f-string hole)."""

    def __init__(self, text):
        self.text = text

    def __repr__(self):
        return "{" + self.text + "}"

    def __eq__(self, o):
        return isinstance(o, Hole) and o.text == self.text

    def __hash__(self):
        return hash(("Hole", self.text))


class Pattern:
    """A string with unknown holes: tuple of str | Hole parts."""

    def __init__(self, parts):
        merged = []
        for p in parts:
            if isinstance(p, str) and merged and isinstance(merged[-1], str):
                merged[-1] += p
            elif p != "":
                merged.append(p)
        self.parts = tuple(merged)

    def __repr__(self):
        return "P" + repr(self.parts)

    def __eq__(self, o):
        return isinstance(o, Pattern) and o.parts == self.parts

    def __hash__(self):
        return hash(("Pattern", self.parts))

    def endswith(self, s):
        return bool(self.parts) and isinstance(self.parts[-1], str) and self.parts[-1].endswith(s)

    def startswith(self, s):
        return bool(self.parts) and isinstance(self.parts[0], str) and self.parts[0].startswith(s)

    def const_text(self):
        return "".join(p for p in self.parts if isinstance(p, str))


class Lam:
    def __init__(self, node, ev):
        self.node = node
        self.ev = ev

    def __hash__(self):
        return id(self.node)

    def __eq__(self, o):
        return isinstance(o, Lam) and o.node is self.node


class FuncRef:
    def __init__(self, mod, node):
        self.mod = mod
        self.node = node

    def __hash__(self):
        return id(self.node)

    def __eq__(self, o):
        return isinstance(o, FuncRef) and o.node is self.node


def S(*vals):
    return frozenset(vals)


def union(a, b):
    if a is TOP or b is TOP:
        return TOP
    return a | b


MAXSET = 400


class FnEval:
    """Evaluator bound to one function (its CFG and reaching definitions)."""

    _cache: dict = {}

    def __init__(self, repo: Repo, mod: Module, fn, overrides=None, exc_model=None):
        self.repo = repo
        self.mod = mod
        self.fn = fn
        key = id(fn)
        if key not in FnEval._cache:
            cfg = CFG(fn)
            FnEval._cache[key] = (cfg, ReachingDefs(cfg), fn)
        self.cfg, self.rd, _ = FnEval._cache[key]
        self.overrides = overrides or {}  # name -> frozenset forced
        self._guard_cache = {}
        self._depth = 0

    # -------------------------------------------------------------- utilities
    def node_ids(self, astnode):
        return [n.id for n in self.cfg.nodes_of(astnode) if n.id in self.cfg.reachable()]

    def guards(self, nid):
        if nid not in self._guard_cache:
            self._guard_cache[nid] = self.cfg.guards(nid)
        return self._guard_cache[nid]

    def guard_consistent(self, nid) -> bool:
        """False when a guard of *nid* contradicts the overrides (the node is
        dead under the case split)."""
        for test, pol in self.guards(nid):
            if not isinstance(test, ast.AST) or not isinstance(test, ast.expr):
                continue
            v = self.truth(test, nid)
            if v is not None and v != pol:
                return False
        return True

    def truth(self, test, nid):
        """True/False when the override environment decides *test*, else None."""
        vs = self.eval(test, nid, _only_overrides=True)
        if vs is TOP or not vs:
            return None
        try:
            ts = {bool(v) for v in vs}
        except Exception:
            return None
        if len(ts) == 1:
            return ts.pop()
        return None

    # ------------------------------------------------------------- evaluation
    def eval_at(self, expr):
        """Evaluate *expr* at (each copy of) the CFG node that contains it."""
        ids = self.node_ids(expr)
        if not ids:
            return TOP
        out = frozenset()
        for nid in ids:
            if not self.guard_consistent(nid):
                continue
            out = union(out, self.eval(expr, nid))
            if out is TOP:
                return TOP
        return out

    def eval(self, e, nid, env=None, _only_overrides=False):
        self._depth += 1
        try:
            if self._depth > 60:
                return TOP
            return self._eval(e, nid, env or {}, _only_overrides)
        finally:
            self._depth -= 1

    def _eval(self, e, nid, env, oo):
        ev = lambda x: self._eval(x, nid, env, oo)
        if isinstance(e, ast.Constant):
            return S(e.value)
        if isinstance(e, ast.Name):
            if e.id in env:
                return env[e.id]
            if e.id in self.overrides:
                return self.overrides[e.id]
            if oo:
                return TOP
            return self._name(e.id, nid, env)
        if isinstance(e, ast.Attribute):
            key = norm(e)
            if key in self.overrides:
                return self.overrides[key]
            return TOP
        if isinstance(e, ast.JoinedStr):
            parts_sets = [[]]
            for v in e.values:
                if isinstance(v, ast.Constant):
                    opts = [v.value]
                else:
                    inner = ev(v.value) if isinstance(v, ast.FormattedValue) else TOP
                    if inner is TOP or not inner or v.format_spec is not None or len(inner) > 8:
                        opts = [Hole(norm(v.value) if isinstance(v, ast.FormattedValue) else "?")]
                    else:
                        opts = []
                        for iv in inner:
                            if isinstance(iv, Pattern):
                                opts.append(iv)
                            elif isinstance(iv, (str, int, float)) and not isinstance(iv, bool):
                                opts.append(str(iv))
                            else:
                                opts.append(Hole(norm(v.value)))
                new = []
                for ps in parts_sets:
                    for o in opts:
                        new.append(ps + (list(o.parts) if isinstance(o, Pattern) else [o]))
                parts_sets = new
                if len(parts_sets) > MAXSET:
                    return TOP
            out = set()
            for ps in parts_sets:
                p = Pattern(ps)
                if all(isinstance(x, str) for x in p.parts):
                    out.add("".join(p.parts))
                else:
                    out.add(p)
            return frozenset(out)
        if isinstance(e, ast.BinOp):
            l, r = ev(e.left), ev(e.right)
            if isinstance(e.op, ast.Add):
                if l is TOP and r is TOP:
                    return TOP
                if l is TOP:
                    l = S(Pattern([Hole(norm(e.left))]))
                if r is TOP:
                    r = S(Pattern([Hole(norm(e.right))]))
                out = set()
                for a in l:
                    for b in r:
                        if isinstance(a, (str, Pattern)) and isinstance(b, (str, Pattern)):
                            pa = list(a.parts) if isinstance(a, Pattern) else [a]
                            pb = list(b.parts) if isinstance(b, Pattern) else [b]
                            p = Pattern(pa + pb)
                            out.add("".join(p.parts) if all(isinstance(x, str) for x in p.parts) else p)
                        elif _num(a) and _num(b):
                            out.add(a + b)
                        else:
                            return TOP
                return frozenset(out) if len(out) <= MAXSET else TOP
            if l is TOP or r is TOP:
                return TOP
            out = set()
            for a in l:
                for b in r:
                    if not (_num(a) and _num(b)):
                        return TOP
                    try:
                        out.add(_BIN[type(e.op)](a, b))
                    except Exception:
                        return TOP
            return frozenset(out)
        if isinstance(e, ast.UnaryOp):
            v = ev(e.operand)
            if v is TOP:
                return TOP
            out = set()
            for a in v:
                try:
                    if isinstance(e.op, ast.Not):
                        out.add(not a)
                    elif isinstance(e.op, ast.USub) and _num(a):
                        out.add(-a)
                    else:
                        return TOP
                except Exception:
                    return TOP
            return frozenset(out)
        if isinstance(e, ast.IfExp):
            t = ev(e.test)
            if t is not TOP and t:
                try:
                    ts = {bool(x) for x in t}
                except Exception:
                    ts = {True, False}
                out = frozenset()
                if True in ts:
                    out = union(out, ev(e.body))
                if False in ts:
                    out = union(out, ev(e.orelse))
                return out
            return union(ev(e.body), ev(e.orelse))
        if isinstance(e, ast.Compare) and len(e.ops) == 1:
            l, r = ev(e.left), ev(e.comparators[0])
            if l is TOP or r is TOP:
                return TOP
            out = set()
            for a in l:
                for b in r:
                    try:
                        out.add(_CMP[type(e.ops[0])](a, b))
                    except Exception:
                        return TOP
            return frozenset(out)
        if isinstance(e, ast.BoolOp):
            vals = [ev(v) for v in e.values]
            if any(v is TOP for v in vals):
                return TOP
            # value-set of short-circuit evaluation
            cur = None
            for v in vals:
                if cur is None:
                    cur = v
                    continue
                nxt = set()
                for a in cur:
                    try:
                        tb = bool(a)
                    except Exception:
                        return TOP
                    if isinstance(e.op, ast.And):
                        nxt |= set(v) if tb else {a}
                    else:
                        nxt |= {a} if tb else set(v)
                cur = frozenset(nxt)
            return cur
        if isinstance(e, ast.Tuple) or isinstance(e, ast.List):
            elts = [ev(x) for x in e.elts]
            if any(x is TOP for x in elts):
                elts = [x if x is not TOP else S(Hole(norm(e.elts[i]))) for i, x in enumerate(elts)]
            out = [()]
            for x in elts:
                out = [o + (v,) for o in out for v in x]
                if len(out) > MAXSET:
                    return TOP
            return frozenset(out)
        if isinstance(e, ast.Lambda):
            return S(Lam(e, self))
        if isinstance(e, ast.Dict):
            return S(DictLit(e, self, nid, dict(env)))
        if isinstance(e, ast.DictComp) and len(e.generators) == 1 and not e.generators[0].is_async:
            # {k: v for a, b in TABLE.items()} over a table with concrete entries -> a concrete table
            g = e.generators[0]
            entries = self._table_entries(g.iter, nid, env, oo)
            if entries is None:
                return TOP
            d = {}
            for item in entries:
                env2 = dict(env)
                if isinstance(g.target, ast.Name):
                    env2[g.target.id] = item[0] if len(item) == 1 else TOP
                elif isinstance(g.target, ast.Tuple) and len(g.target.elts) == len(item) and all(isinstance(t, ast.Name) for t in g.target.elts):
                    for t, v in zip(g.target.elts, item):
                        env2[t.id] = v
                else:
                    return TOP
                if any(v is TOP for v in env2.values()):
                    return TOP
                keep = True
                for cond in g.ifs:
                    c = self._eval(cond, nid, env2, oo)
                    if c is TOP or len(c) != 1:
                        return TOP
                    keep = keep and bool(next(iter(c)))
                if not keep:
                    continue
                k, v = self._eval(e.key, nid, env2, oo), self._eval(e.value, nid, env2, oo)
                if k is TOP or v is TOP or len(k) != 1 or len(v) != 1:
                    return TOP
                k, v = next(iter(k)), next(iter(v))
                if not _hashable(k) or not (v is None or isinstance(v, (str, int, float, bool, tuple))):
                    return TOP
                d[k] = v
            return S(PyDict(d, self.repo, self.mod))
        if isinstance(e, ast.Subscript):
            if self.overrides and norm(e) in self.overrides:
                return self.overrides[norm(e)]
            base = ev(e.value)
            idx = ev(e.slice) if not isinstance(e.slice, ast.Slice) else TOP
            if base is TOP:
                return TOP
            out = frozenset()
            for b in base:
                if isinstance(b, (DictLit, PyDict)):
                    out = union(out, b.lookup(idx, default=None, has_default=False))
                elif isinstance(b, str) and isinstance(e.slice, ast.Slice):
                    lo = self._eval(e.slice.lower, nid, env, oo) if e.slice.lower is not None else S(None)
                    hi = self._eval(e.slice.upper, nid, env, oo) if e.slice.upper is not None else S(None)
                    if lo is TOP or hi is TOP or e.slice.step is not None:
                        return TOP
                    for l_ in lo:
                        for h_ in hi:
                            if not all(x is None or (isinstance(x, int) and not isinstance(x, bool)) for x in (l_, h_)):
                                return TOP
                            out = out | S(b[l_:h_])
                elif isinstance(b, tuple):
                    if idx is TOP:
                        return TOP
                    for i in idx:
                        if isinstance(i, int) and -len(b) <= i < len(b):
                            out = out | S(b[i])
                        else:
                            return TOP
                else:
                    return TOP
                if out is TOP:
                    return TOP
            return out
        if isinstance(e, ast.Call):
            if self.overrides and norm(e) in self.overrides:
                return self.overrides[norm(e)]
            return self._call(e, nid, env, oo)
        if isinstance(e, ast.NamedExpr):
            return ev(e.value)
        return TOP

    def _table_entries(self, it, nid, env, oo):
        """[(key set, value set)] / [(key set,)] for  TABLE.items() / TABLE / TABLE.keys()  over one concrete table, else None."""
        what = "keys"
        base = it
        if isinstance(it, ast.Call) and isinstance(it.func, ast.Attribute) and it.func.attr in ("items", "keys", "values") and not it.args:
            what, base = it.func.attr, it.func.value
        b = self._eval(base, nid, env, oo)
        if b is TOP or len(b) != 1:
            return None
        b = next(iter(b))
        if isinstance(b, PyDict):
            pairs = [(S(k), lift(v, b.repo, b.mod)) for k, v in b.d.items()]
        elif isinstance(b, DictLit):
            items = b.items()
            if items is None:
                return None
            pairs = [(S(k), b.ev._eval(v, b.nid, b.env, False)) for k, v in items]
        else:
            return None
        if what == "items":
            return pairs
        if what == "values":
            return [(v,) for _, v in pairs]
        return [(k,) for k, _ in pairs]

    def _name(self, name, nid, env):
        defs = self.rd.at(nid, name)
        if not defs:
            # module-level / enclosing-function binding
            return self._outer_name(name)
        out = frozenset()
        for d in defs:
            if d.node >= 0 and not self.guard_consistent(d.node):
                continue
            v = self._def_value(d)
            out = union(out, v)
            if out is TOP:
                break
        if out is not TOP:
            out = self._refine(name, nid, out)
        return out

    def _def_value(self, d):
        if d.kind in ("param", "for", "with", "except", "import", "aug"):
            return TOP
        if d.kind == "def":
            return S(FuncRef(self.mod, d.value))
        if d.kind in ("assign", "walrus"):
            v = self.eval(d.value, d.node)
            if d.index:
                if v is TOP:
                    return TOP
                out = set()
                for t in v:
                    cur = t
                    for i in d.index:
                        if isinstance(cur, tuple) and i < len(cur):
                            cur = cur[i]
                        else:
                            return TOP
                    if isinstance(cur, Hole):
                        return TOP
                    out.add(cur)
                return frozenset(out)
            return v
        return TOP

    def _outer_name(self, name):
        # enclosing function's locals (closures) are not tracked: TOP, except defs
        outer = enclosing_def(self.fn)
        if outer is not None:
            sub = FnEval(self.repo, self.mod, outer, self.overrides)
            ids = sub.node_ids(self.fn)
            if ids:
                v = frozenset()
                for i in ids:
                    v = union(v, sub._name(name, i, {}))
                    if v is TOP:
                        break
                if v is not TOP and v:
                    return v
                if v is TOP:
                    return TOP
        got = self.repo.lookup(self.mod, name)
        if got is None:
            return TOP
        m, node = got
        if isinstance(node, (ast.Assign, ast.AnnAssign)):
            from .modconst import module_constants
            consts = module_constants(m)
            if name in consts:
                v = lift(consts[name], self.repo, m)
                if v is not TOP:
                    return v
        if isinstance(node, (ast.FunctionDef,)):
            return S(FuncRef(m, node))
        if isinstance(node, (ast.Assign, ast.AnnAssign)) and node.value is not None:
            if len(m.assigns.get(name, [])) == 1 or m is not self.mod:
                return ModEval(self.repo, m).eval(node.value)
        return TOP

    def _refine(self, name, nid, vals):
        for test, pol in self.guards(nid):
            if not isinstance(test, ast.expr):
                continue
            if isinstance(test, ast.Compare) and len(test.ops) == 1 and isinstance(test.left, ast.Name) and test.left.id == name:
                op = test.ops[0]
                rhs = test.comparators[0]
                if isinstance(rhs, ast.Constant):
                    c = rhs.value
                    if isinstance(op, (ast.Eq, ast.Is)):
                        vals = frozenset(v for v in vals if (v == c and type(v) == type(c) or (v is c)) == pol) if c is not None else frozenset(v for v in vals if (v is None) == pol)
                    elif isinstance(op, (ast.NotEq, ast.IsNot)):
                        vals = frozenset(v for v in vals if ((v != c) if c is not None else (v is not None)) == pol)
                elif isinstance(rhs, (ast.List, ast.Tuple, ast.Set)) and isinstance(op, (ast.In, ast.NotIn)) and all(isinstance(x, ast.Constant) for x in rhs.elts):
                    cs = {x.value for x in rhs.elts}
                    want = pol if isinstance(op, ast.In) else not pol
                    vals = frozenset(v for v in vals if (v in cs) == want)
            elif isinstance(test, ast.Name) and test.id == name:
                try:
                    vals = frozenset(v for v in vals if bool(v) == pol)
                except Exception:
                    pass
        return vals

    def _call(self, e, nid, env, oo):
        f = e.func
        ev = lambda x: self._eval(x, nid, env, oo)
        # dict.get on a literal table
        if isinstance(f, ast.Attribute) and f.attr == "get":
            base = ev(f.value)
            if base is not TOP and base and all(isinstance(b, (DictLit, PyDict)) for b in base):
                key = ev(e.args[0]) if e.args else TOP
                default = ev(e.args[1]) if len(e.args) > 1 else S(None)
                out = frozenset()
                for b in base:
                    out = union(out, b.lookup(key, default, True))
                return out
            return TOP
        if isinstance(f, ast.Attribute) and f.attr in ("replace",) and len(e.args) == 2:
            base = ev(f.value)
            a, b = ev(e.args[0]), ev(e.args[1])
            if base is TOP or a is TOP or b is TOP or len(a) != 1 or len(b) != 1:
                return TOP
            (a,), (b,) = a, b
            out = set()
            for s in base:
                if isinstance(s, str):
                    out.add(s.replace(a, b))
                else:
                    return TOP
            return frozenset(out)
        if isinstance(f, ast.Attribute) and f.attr == "format" and isinstance(f.value, ast.Constant) and isinstance(f.value.value, str):
            parts = []
            import string
            argi = 0
            for lit, field, spec, conv in string.Formatter().parse(f.value.value):
                parts.append(lit)
                if field is not None:
                    parts.append(Hole(norm(e.args[argi]) if argi < len(e.args) else field))
                    argi += 1
            return S(Pattern(parts))
        callee = ev(f) if isinstance(f, (ast.Name,)) else TOP
        if callee is TOP or not callee:
            return TOP
        args = [ev(a) for a in e.args]
        out = frozenset()
        for c in callee:
            if isinstance(c, Lam):
                params = [a.arg for a in c.node.args.args]
                if len(params) != len(args):
                    return TOP
                env2 = dict(zip(params, args))
                env2 = {k: v for k, v in env2.items() if v is not TOP}
                sub = c.ev
                # evaluate the lambda body in its defining function's context
                ids = sub.node_ids(c.node)
                where = ids[0] if ids else nid
                r = sub._eval(c.node.body, where, env2, False)
            elif isinstance(c, FuncRef):
                r = _closure_of(c, e, self)
                if r is None:
                    r = summarize_function(self.repo, c.mod, c.node, args)
            else:
                return TOP
            out = union(out, r)
            if out is TOP:
                return TOP
        return out


class PyDict:
    """A module-level table folded by sa/modconst.py."""

    def __init__(self, d, repo, mod):
        self.d, self.repo, self.mod = d, repo, mod

    def __hash__(self):
        return id(self.d)

    def __eq__(self, o):
        return isinstance(o, PyDict) and o.d is self.d

    def keys(self):
        return list(self.d.keys())

    def lookup(self, key, default, has_default):
        out = frozenset()
        if key is TOP:
            sel, miss = list(self.d.values()), True
        else:
            sel = [self.d[k] for k in key if _hashable(k) and k in self.d]
            miss = any((not _hashable(k)) or k not in self.d for k in key)
        for v in sel:
            out = union(out, lift(v, self.repo, self.mod))
            if out is TOP:
                return TOP
        if has_default and miss:
            out = union(out, default)
        return out


def _hashable(k):
    try:
        hash(k)
        return True
    except TypeError:
        return False


def lift(v, repo, mod, depth=0):
    """Abstract value set of a folded module-level value."""
    from .modconst import Opaque
    if depth > 6:
        return TOP
    if isinstance(v, Opaque):
        return ModEval(repo, mod).eval(v.node)
    if isinstance(v, dict):
        return S(PyDict(v, repo, mod))
    if isinstance(v, (tuple, list)):
        out = [()]
        for x in v:
            lx = lift(x, repo, mod, depth + 1)
            if lx is TOP:
                lx = S(Hole("?"))
            out = [o + (y,) for o in out for y in lx]
            if len(out) > MAXSET:
                return TOP
        return frozenset(out)
    if isinstance(v, (set, frozenset)):
        try:
            return S(frozenset(v))
        except TypeError:
            return TOP
    if v is None or isinstance(v, (str, int, float, bool)):
        return S(v)
    return TOP


class DictLit:
    def __init__(self, node, ev, nid, env):
        self.node = node
        self.ev = ev
        self.nid = nid
        self.env = env

    def __hash__(self):
        return id(self.node)

    def __eq__(self, o):
        return isinstance(o, DictLit) and o.node is self.node

    def items(self):
        out = []
        for k, v in zip(self.node.keys, self.node.values):
            if k is None:
                return None
            kv = self.ev._eval(k, self.nid, self.env, False)
            if kv is TOP or len(kv) != 1:
                return None
            out.append((next(iter(kv)), v))
        return out

    def lookup(self, key, default, has_default):
        items = self.items()
        if items is None:
            return TOP
        out = frozenset()
        if key is TOP:
            sel = [v for _, v in items]
            miss = True
        else:
            sel = [v for k, v in items if k in key]
            miss = any(k not in {kk for kk, _ in items} for k in key)
        for v in sel:
            out = union(out, self.ev._eval(v, self.nid, self.env, False))
            if out is TOP:
                return TOP
        if has_default and miss:
            out = union(out, default)
        return out


class ModEval:
    """Evaluate a module-level expression (no flow)."""

    def __init__(self, repo, mod):
        self.repo = repo
        self.mod = mod

    def eval(self, e):
        fake = ast.parse("def _f():\n    return 0").body[0]
        fake.body = [ast.Return(value=e)]
        # do not re-parent e: evaluate through a throw-away evaluator
        fe = FnEval.__new__(FnEval)
        fe.repo, fe.mod, fe.fn = self.repo, self.mod, fake
        fe.overrides = {}
        fe._guard_cache = {}
        fe._depth = 0

        class _RD:
            def at(self, nid, name):
                return []

        class _C:
            def guards(self, nid):
                return []

            def reachable(self):
                return {0}

            def nodes_of(self, n):
                return []

        fe.rd = _RD()
        fe.cfg = _C()
        fe._outer_name_orig = fe._outer_name
        return fe._eval(e, 0, {}, False)


_SUMMARY_DEPTH = [0]


def _closure_of(fref, call, ev):
    """make(<simple args>)  where  def make(p..): return lambda ..: BODY   ->   the lambda with p.. replaced by the argument
    expressions (beta reduction), so that a table built from small factories reads like a table of lambdas."""
    fn = fref.node
    body = [st for st in fn.body if not (isinstance(st, ast.Expr) and isinstance(st.value, ast.Constant))]
    if len(body) != 1 or not isinstance(body[0], ast.Return) or not isinstance(body[0].value, ast.Lambda):
        return None
    params = [a.arg for a in fn.args.args]
    if len(params) != len(call.args) or call.keywords or fn.args.vararg or fn.args.kwarg:
        return None
    if not all(isinstance(a, (ast.Name, ast.Attribute, ast.Constant)) for a in call.args):
        return None
    lam = body[0].value
    inner = {a.arg for a in lam.args.args}
    sub = {p: a for p, a in zip(params, call.args) if p not in inner}
    from .inline import _clone

    class R(ast.NodeTransformer):
        def visit_Name(self, n):
            if isinstance(n.ctx, ast.Load) and n.id in sub:
                return ast.copy_location(_clone(sub[n.id]), n)
            return n
    new = R().visit(_clone(lam))
    ast.copy_location(new, call)
    ast.fix_missing_locations(new)
    for parent in ast.walk(new):
        for child in ast.iter_child_nodes(parent):
            child.parent = parent
    new.parent = getattr(call, "parent", None)
    return S(Lam(new, ev))


def summarize_function(repo, mod, fn, args):
    """Value set returned by a repo function for abstract *args*: union over
    its return statements (path-insensitive except for guard refinement)."""
    if _SUMMARY_DEPTH[0] > 6:
        return TOP
    _SUMMARY_DEPTH[0] += 1
    try:
        params = [a.arg for a in fn.args.args]
        ov = {}
        for p, a in zip(params, args):
            if a is not TOP:
                ov[p] = a
        fe = FnEval(repo, mod, fn, ov)
        out = frozenset()
        found = False
        for n in fe.cfg.nodes:
            if n.kind == "return" and n.id in fe.cfg.reachable():
                if not fe.guard_consistent(n.id):
                    continue
                found = True
                if n.ast.value is None:
                    out = union(out, S(None))
                else:
                    out = union(out, fe.eval(n.ast.value, n.id))
                if out is TOP:
                    return TOP
        return out if found else TOP
    finally:
        _SUMMARY_DEPTH[0] -= 1


def _num(a):
    return isinstance(a, (int, float)) and not isinstance(a, bool) or isinstance(a, bool)


import operator

_BIN = {
    ast.Sub: operator.sub, ast.Mult: operator.mul, ast.Div: operator.truediv,
    ast.Mod: operator.mod, ast.FloorDiv: operator.floordiv, ast.Pow: operator.pow,
    ast.LShift: operator.lshift, ast.RShift: operator.rshift, ast.BitOr: operator.or_,
    ast.BitAnd: operator.and_, ast.BitXor: operator.xor,
}
_CMP = {
    ast.Eq: operator.eq, ast.NotEq: operator.ne, ast.Lt: operator.lt, ast.LtE: operator.le,
    ast.Gt: operator.gt, ast.GtE: operator.ge, ast.Is: operator.is_, ast.IsNot: operator.is_not,
    ast.In: lambda a, b: a in b, ast.NotIn: lambda a, b: a not in b,
}
