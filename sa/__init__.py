"""Static analysis machinery for stationeers-pytrapic (see /verif/DESIGN.md)."""
