"""Thorough tier: self-validation of the rules.

(a) the same rules on an ``ast.unparse``-normalised copy of the package: every
    line number, comment and layout detail changes; verdicts, finding keys and
    instance counts must be identical (guards against position-keyed rules);
(b) the mutant corpus (sa/corpus.py): variants of the repository source that
    break one clause while staying valid Python — the named rule must fire —
    and neutral variants on which the check must stay silent;
(c) the seeded changes under /verif/seeded that belong to the property: the
    rule(s) recorded in their meta.json must fire on the patched copy.

Scratch copies live in ``mktemp -d`` directories outside /repo and /verif and
are removed as soon as the variant has been judged.  A self-validation failure
is an ANALYSIS-ERROR (exit 2): the checker, not the repository, is at fault.
"""
from __future__ import annotations

import ast
import json
import os
import random
import shutil
import subprocess
import tempfile
from concurrent.futures import ProcessPoolExecutor
from pathlib import Path

from .model import AnalysisError, PKG

VERIF = Path(__file__).resolve().parent.parent
BIG = {"structures_generated.py", "types_generated.py", "intrinsics.py"}


def make_copy(repo_root: str, touched=(), link_big=True) -> str:
    """Scratch copy of the analysed part of the repository."""
    d = tempfile.mkdtemp(prefix="sv_copy_", dir=os.environ.get("TMPDIR", "/tmp"))
    src = Path(repo_root) / PKG
    dst = Path(d) / PKG
    dst.mkdir(parents=True)
    for p in src.glob("*.py"):
        if link_big and p.name in BIG and p.name not in touched:
            os.symlink(p, dst / p.name)
        else:
            shutil.copy(p, dst / p.name)
    w = Path(d) / "webapp/src"
    w.mkdir(parents=True)
    shutil.copy(Path(repo_root) / "webapp/src/ic10.json", w / "ic10.json")
    return d


def _summary(chk):
    keys = sorted({(f["rule"], f["key"]) for f in chk.findings})
    counts = {}
    for r, k, ok, facts, vac in chk.instances:
        counts[r] = counts.get(r, 0) + 1
    return keys, counts


def _analyse(pid, root):
    from .runner import analyse
    return analyse(pid, root, "quick", 0, quiet=True)


def _variant_job(args):
    """Runs in a worker process: build the variant, analyse, judge."""
    pid, repo_root, kind, name, spec, base_keys = args
    from . import corpus
    d = None
    try:
        if kind in ("seeded", "refactoring"):
            d = make_copy(repo_root, touched=BIG, link_big=False)
            patch = Path(spec["patch"])
            p = subprocess.run(["git", "apply", "--unsafe-paths", "-p1", "--directory", d, str(patch)], cwd=d, stdout=subprocess.PIPE, stderr=subprocess.STDOUT, text=True)
            if p.returncode != 0:
                p = subprocess.run(["patch", "-p1", "-s", "-d", d, "-i", str(patch)], stdout=subprocess.PIPE, stderr=subprocess.STDOUT, text=True)
                if p.returncode != 0:
                    return {"name": name, "kind": kind, "status": "skipped", "why": "patch no longer applies: " + p.stdout[-200:]}
            expect = spec.get("expect", [])
        else:
            m = corpus.find(pid, name)
            files = m["files"] if "files" in m else [m["file"]]
            d = make_copy(repo_root, touched=set(files))
            applied = corpus.apply(m, Path(d))
            if not applied:
                return {"name": name, "kind": kind, "status": "skipped", "why": "anchor of the variant not found in the current source"}
            for f in files:
                p = Path(d) / (PKG + "/" + f if not f.startswith("webapp") else f)
                if p.suffix == ".py":
                    ast.parse(p.read_text())
            expect = m.get("expect", [])
        try:
            chk = _analyse(pid, d)
            keys, counts = _summary(chk)
            err = chk.anchor_error
        except AnalysisError as e:
            keys, counts, err = [], {}, str(e)
        new = [k for k in keys if tuple(k) not in {tuple(b) for b in base_keys}]
        if kind in ("neutral", "refactoring"):
            ok = not new and err is None
            return {"name": name, "kind": kind, "status": "ok" if ok else "FAILED", "new_findings": new[:4], "error": err}
        fired = sorted({k[0] for k in new})
        ok = any(any(r == e or r.startswith(e) for r in fired) for e in expect) if expect else bool(new)
        if err is not None and not ok:
            return {"name": name, "kind": kind, "status": "FAILED", "why": "analysis error instead of a violation: " + err[:200], "expected": expect}
        return {"name": name, "kind": kind, "status": "ok" if ok else "FAILED", "fired": fired, "expected": expect,
                "report": [f"{k[0]} {k[1]}"[:160] for k in new[:3]]}
    except Exception as e:  # pragma: no cover
        return {"name": name, "kind": kind, "status": "FAILED", "why": f"{type(e).__name__}: {e}"}
    finally:
        if d:
            shutil.rmtree(d, ignore_errors=True)


def normalised_copy_check(pid, repo_root, base):
    d = make_copy(repo_root, touched=BIG, link_big=False)
    try:
        for p in (Path(d) / PKG).glob("*.py"):
            src = p.read_text(encoding="utf-8")
            p.write_text(ast.unparse(ast.parse(src)) + "\n", encoding="utf-8")
        chk = _analyse(pid, d)
        k2, c2 = _summary(chk)
        k1, c1 = _summary(base)
        if k1 != k2 or c1 != c2:
            diff_k = sorted(set(map(tuple, k1)) ^ set(map(tuple, k2)))
            diff_c = {r: (c1.get(r), c2.get(r)) for r in set(c1) | set(c2) if c1.get(r) != c2.get(r)}
            raise AnalysisError(f"self-validation: verdicts differ on the ast.unparse-normalised copy (position/layout dependent rule): findings {diff_k[:4]} counts {diff_c}")
        return {"findings": len(k2), "instances": sum(c2.values())}
    finally:
        shutil.rmtree(d, ignore_errors=True)


def run(pid, repo_root, seed, base_chk):
    from . import corpus
    base_keys, _ = _summary(base_chk)
    out = {"normalised_copy": normalised_copy_check(pid, repo_root, base_chk)}
    jobs = []
    for m in corpus.variants(pid):
        jobs.append((pid, repo_root, "neutral" if m.get("neutral") else "mutant", m["name"], None, base_keys))
    sd = VERIF / "seeded"
    if sd.is_dir():
        for s in sorted(sd.iterdir()):
            mf = s / "meta.json"
            if not mf.is_file():
                continue
            meta = json.loads(mf.read_text())
            det = meta.get("detected_by", {})
            if pid in det:
                jobs.append((pid, repo_root, "seeded", s.name, {"patch": str(s / "patch.diff"), "expect": det[pid]}, base_keys))
    # the stored behaviour-preserving refactorings that were written against this property: the check must stay silent on them
    known_disturbed = []
    nd = VERIF / "neutral"
    if nd.is_dir():
        for s in sorted(nd.iterdir()):
            mf = s / "meta.json"
            if mf.is_file() and json.loads(mf.read_text()).get("property") == pid and (s / "patch.diff").is_file():
                m_ = json.loads(mf.read_text())
                if pid in m_.get("false_alarms", {}) or pid in m_.get("analysis_broken", {}):
                    # recorded by tools/seedmatrix.py --update: this check is still disturbed by that refactoring (DESIGN.md section 10, "still disturbed");
                    # it is listed, not replayed, so that the tier does not fail for a weakness that is already written down
                    known_disturbed.append(s.name)
                    continue
                jobs.append((pid, repo_root, "refactoring", s.name, {"patch": str(s / "patch.diff")}, base_keys))
    random.Random(seed).shuffle(jobs)
    workers = min(16, max(1, len(jobs)))
    results = []
    if jobs:
        with ProcessPoolExecutor(max_workers=workers) as ex:
            results = list(ex.map(_variant_job, jobs))
    results.sort(key=lambda r: (r["kind"], r["name"]))
    failed = [r for r in results if r["status"] == "FAILED"]
    out["variants"] = len(results)
    out["mutants_caught"] = sum(1 for r in results if r["kind"] == "mutant" and r["status"] == "ok")
    out["neutral_silent"] = sum(1 for r in results if r["kind"] == "neutral" and r["status"] == "ok")
    out["seeded_caught"] = sum(1 for r in results if r["kind"] == "seeded" and r["status"] == "ok")
    out["refactorings_silent"] = sum(1 for r in results if r["kind"] == "refactoring" and r["status"] == "ok")
    out["refactorings_known_to_disturb"] = known_disturbed
    if known_disturbed:
        print(f"[{pid}] stored refactorings that still disturb this check (recorded, not replayed): {', '.join(known_disturbed)}")
    out["skipped"] = [r["name"] for r in results if r["status"] == "skipped"]
    out["results"] = results
    print(f"[{pid}] self-validation: normalised copy identical; {out['mutants_caught']} mutants caught, {out['neutral_silent']} neutral variants silent, "
          f"{out['seeded_caught']} seeded changes caught, {out['refactorings_silent']} stored refactorings silent, {len(out['skipped'])} skipped, {len(failed)} failed")
    if failed:
        raise AnalysisError("self-validation failed: " + "; ".join(f"{r['kind']} {r['name']}: {r.get('why') or r.get('new_findings') or ('expected ' + str(r.get('expected')) + ' fired ' + str(r.get('fired')))}" for r in failed[:5]))
    n_real = len(results) - len(out["skipped"])
    if results and n_real < max(1, len(results) // 2):
        raise AnalysisError(f"self-validation: {len(out['skipped'])} of {len(results)} variants no longer apply to the current source; the corpus needs re-anchoring")
    return out
