"""E1 RepoModel: parse the package, index definitions, resolve names.

Nothing from the repository is imported or executed; every fact comes from
``ast`` over the files of the working tree.
"""
from __future__ import annotations

import ast
import json
import os
from pathlib import Path


class AnalysisError(Exception):
    """An anchor vanished or the checker met a shape it does not understand."""


PKG = "src/stationeers_pytrapic"


def unparse(node) -> str:
    try:
        return ast.unparse(node)
    except Exception:  # pragma: no cover
        return "<%s>" % type(node).__name__


def norm(node) -> str:
    """Position-free text of a node (keys of findings use this, never lines)."""
    return " ".join(unparse(node).split())


class Module:
    def __init__(self, name: str, path: Path, repo=None, canonicalise=True):
        self.name = name
        self.path = path
        self.repo = repo
        self.src = path.read_text(encoding="utf-8")
        self.tree = ast.parse(self.src, filename=str(path))
        self.funcs: dict[str, ast.FunctionDef] = {}
        self.classes: dict[str, ast.ClassDef] = {}
        self.imports: dict[str, tuple[str, str | None]] = {}  # local -> (module, attr)
        self.star_imports: list[str] = []
        self.assigns: dict[str, list[ast.stmt]] = {}
        self._index()
        self.raw_funcs = self.funcs
        if canonicalise:
            self._canonicalise()

    def _index(self):
        for n in ast.walk(self.tree):
            for c in ast.iter_child_nodes(n):
                c.parent = n
        self.tree.parent = None

        def visit(body, prefix, cls):
            for st in body:
                if isinstance(st, (ast.FunctionDef, ast.AsyncFunctionDef)):
                    q = prefix + st.name
                    if q not in self.funcs or not _is_setter(st):
                        # property setters share the name; keep the getter
                        if q not in self.funcs:
                            self.funcs[q] = st
                    st.qual = q
                    st.module = self
                    st.cls = cls
                    visit(st.body, q + ".", cls)
                elif isinstance(st, ast.ClassDef):
                    q = prefix + st.name
                    self.classes[q] = st
                    st.qual = q
                    st.module = self
                    visit(st.body, q + ".", st)
                elif isinstance(st, (ast.If, ast.Try, ast.With, ast.For, ast.While)):
                    for fld in ("body", "orelse", "finalbody"):
                        visit(getattr(st, fld, []) or [], prefix, cls)
                    for h in getattr(st, "handlers", []) or []:
                        visit(h.body, prefix, cls)

        visit(self.tree.body, "", None)
        for st in ast.walk(self.tree):
            if isinstance(st, ast.ImportFrom):
                mod = ("." * st.level) + (st.module or "")
                for a in st.names:
                    if a.name == "*":
                        self.star_imports.append(mod)
                    else:
                        self.imports[a.asname or a.name] = (mod, a.name)
            elif isinstance(st, ast.Import):
                for a in st.names:
                    self.imports[a.asname or a.name.split(".")[0]] = (a.name, None)
        for st in self.tree.body:
            if isinstance(st, ast.Assign):
                for t in st.targets:
                    if isinstance(t, ast.Name):
                        self.assigns.setdefault(t.id, []).append(st)
            elif isinstance(st, ast.AnnAssign) and isinstance(st.target, ast.Name):
                self.assigns.setdefault(st.target.id, []).append(st)

    def _canonicalise(self):
        """Present every function of the hand-written modules in canonical form: helpers that did not exist when the
        rules were written are expanded at their call sites (sa/inline.py) and disappear as functions of their own."""
        from .corefuncs import CORE_FUNCS
        if self.name not in CORE_FUNCS:
            return
        from .inline import canonical_function
        self.absorbed = set()
        canon = {}
        for q, f in self.raw_funcs.items():
            if isinstance(f, (ast.FunctionDef, ast.AsyncFunctionDef)):
                c = canonical_function(self, f)
                canon[q] = c
                for h in getattr(c, "inlined_helpers", []) or []:
                    self.absorbed.add(h)
            else:
                canon[q] = f
        core = CORE_FUNCS[self.name]
        self.funcs = {q: f for q, f in canon.items() if not (q not in core and q.split(".")[-1] in self.absorbed)}

    def func(self, qual: str) -> ast.FunctionDef:
        if qual not in self.funcs:
            raise AnalysisError(f"anchor vanished: function {self.name}.{qual}")
        return self.funcs[qual]

    def anchor(self, qual: str) -> ast.FunctionDef:
        """The function *qual* with same-module helper calls expanded in place
        (robust against 'extract helper' refactorings); see sa/inline.py."""
        return self.func(qual)

    def cls(self, name: str) -> ast.ClassDef:
        if name not in self.classes:
            raise AnalysisError(f"anchor vanished: class {self.name}.{name}")
        return self.classes[name]


def _is_setter(fn) -> bool:
    for d in fn.decorator_list:
        if isinstance(d, ast.Attribute) and d.attr in ("setter", "deleter"):
            return True
    return False


def enclosing_function(node):
    n = getattr(node, "parent", None)
    while n is not None and not isinstance(n, (ast.FunctionDef, ast.AsyncFunctionDef, ast.Lambda)):
        n = getattr(n, "parent", None)
    return n


def enclosing_def(node):
    """Nearest enclosing FunctionDef (lambdas skipped)."""
    n = getattr(node, "parent", None)
    while n is not None and not isinstance(n, (ast.FunctionDef, ast.AsyncFunctionDef)):
        n = getattr(n, "parent", None)
    return n


def enclosing_stmt(node):
    n = node
    while n is not None and not isinstance(n, ast.stmt):
        n = getattr(n, "parent", None)
    return n


class Repo:
    CORE = [
        "compiler", "compile_pass", "generate_code", "register_assignment",
        "types", "utils", "mod_daemon", "intrinsics", "symbols", "builtins",
        "__init__", "__main__", "parse_lua",
    ]

    def __init__(self, root: str | os.PathLike = "/repo"):
        self.root = Path(root)
        self.pkg = self.root / PKG
        if not self.pkg.is_dir():
            raise AnalysisError(f"package directory missing: {self.pkg}")
        self._mods: dict[str, Module] = {}
        self.units_parsed = 0

    # ------------------------------------------------------------------ files
    def module_names(self) -> list[str]:
        return sorted(p.stem for p in self.pkg.glob("*.py"))

    def mod(self, name: str) -> Module:
        if name not in self._mods:
            p = self.pkg / (name + ".py")
            if not p.is_file():
                raise AnalysisError(f"anchor vanished: module {name} ({p})")
            try:
                self._mods[name] = Module(name, p, repo=self)
            except SyntaxError as e:
                raise AnalysisError(f"module {name} does not parse: {e}")
            self.units_parsed += 1
        return self._mods[name]

    def raw_mod(self, name: str):
        """The module as written (functions not canonicalised); used to look up helpers that live in a sibling module."""
        cache = self.__dict__.setdefault("_raw_mods", {})
        if name not in cache:
            p = self.pkg / (name + ".py")
            if not p.is_file():
                return None
            try:
                cache[name] = Module(name, p, repo=self, canonicalise=False)
            except SyntaxError:
                return None
        return cache[name]

    def new_methods(self):
        """{method name: [function]} of the methods of the hand-written modules that are not in the frozen table of core functions."""
        idx = self.__dict__.get("_new_methods")
        if idx is None:
            from .corefuncs import CORE_FUNCS
            idx = {}
            for mn, core in CORE_FUNCS.items():
                m = self.raw_mod(mn)
                if m is None:
                    continue
                for q, f in m.raw_funcs.items():
                    if getattr(f, "cls", None) is not None and q not in core and isinstance(f, ast.FunctionDef) and q.count(".") == 1:
                        idx.setdefault(f.name, []).append(f)
            self.__dict__["_new_methods"] = idx
        return idx

    def has_mod(self, name: str) -> bool:
        return (self.pkg / (name + ".py")).is_file()

    def ic10_json(self) -> dict:
        p = self.root / "webapp/src/ic10.json"
        if not p.is_file():
            raise AnalysisError(f"anchor vanished: {p}")
        return json.loads(p.read_text())

    # ------------------------------------------------------------- resolution
    def resolve_import(self, mod: Module, local: str):
        """('module', 'attr'|None) for a name bound by an import in *mod*,
        module names relative to the package are returned bare."""
        if local in mod.imports:
            m, a = mod.imports[local]
            m = m.lstrip(".")
            if m.startswith("stationeers_pytrapic."):
                m = m[len("stationeers_pytrapic."):]
            if m == "" and a is not None:  # from . import x
                return (a, None)
            return (m, a)
        return None

    def lookup(self, mod: Module, name: str, _seen=None):
        """Find the module-level definition a bare *name* denotes in *mod*:
        returns (Module, node) with node a FunctionDef/ClassDef/Assign, or None."""
        _seen = _seen or set()
        if (mod.name, name) in _seen:
            return None
        _seen.add((mod.name, name))
        if name in mod.funcs and "." not in name:
            return (mod, mod.funcs[name])
        if name in mod.classes:
            return (mod, mod.classes[name])
        if name in mod.assigns:
            return (mod, mod.assigns[name][-1])
        r = self.resolve_import(mod, name)
        if r:
            m, a = r
            if a is None:
                return (self.mod(m), None) if self.has_mod(m) else None
            if self.has_mod(m):
                return self.lookup(self.mod(m), a, _seen)
            return None
        for sm in mod.star_imports:
            sm = sm.lstrip(".")
            if sm.startswith("stationeers_pytrapic."):
                sm = sm[len("stationeers_pytrapic."):]
            if self.has_mod(sm):
                got = self.lookup(self.mod(sm), name, _seen)
                if got:
                    return got
        return None

    def class_mro(self, mod: Module, cls: ast.ClassDef):
        """Linearised bases inside the repo (depth-first, left to right)."""
        out, seen = [], set()

        def rec(m, c):
            if (m.name, c.name) in seen:
                return
            seen.add((m.name, c.name))
            out.append((m, c))
            for b in c.bases:
                if isinstance(b, ast.Name):
                    got = self.lookup(m, b.id)
                    if got and isinstance(got[1], ast.ClassDef):
                        rec(got[0], got[1])

        rec(mod, cls)
        return out

    def method(self, mod: Module, cls: ast.ClassDef, name: str):
        for m, c in self.class_mro(mod, cls):
            q = c.qual + "." + name
            if q in m.funcs:
                return (m, m.funcs[q])
        return None

    def subclasses(self, base_name: str):
        out = []
        for mn in self.CORE:
            if not self.has_mod(mn):
                continue
            m = self.mod(mn)
            for c in m.classes.values():
                for mm, cc in self.class_mro(m, c):
                    if cc.name == base_name:
                        out.append((m, c))
                        break
        return out

    # ------------------------------------------------------ compiler registry
    def handlers(self) -> dict[str, str]:
        """node type name -> handler method name, from CompilerPass.__init__."""
        m = self.mod("compile_pass")
        init = m.func("CompilerPass.__init__")
        for st in ast.walk(init):
            if isinstance(st, ast.Assign) and any(
                isinstance(t, ast.Attribute) and t.attr == "_handlers" for t in st.targets
            ) and isinstance(st.value, ast.Dict):
                out = {}
                for k, v in zip(st.value.keys, st.value.values):
                    if isinstance(k, ast.Attribute) and isinstance(v, ast.Attribute):
                        out[k.attr] = v.attr
                if out:
                    return out
        raise AnalysisError("anchor vanished: CompilerPass._handlers registry")

    def passes(self) -> list[str]:
        m = self.mod("compiler")
        init = m.func("Compiler.__init__")
        for st in ast.walk(init):
            if isinstance(st, ast.Assign) and any(
                isinstance(t, ast.Attribute) and t.attr == "passes" for t in st.targets
            ) and isinstance(st.value, (ast.List, ast.Tuple)):
                return [e.id for e in st.value.elts if isinstance(e, ast.Name)]
        raise AnalysisError("anchor vanished: Compiler.passes")

    def pass_class(self, name: str):
        got = self.lookup(self.mod("compiler"), name)
        if not got or not isinstance(got[1], ast.ClassDef):
            raise AnalysisError(f"anchor vanished: pass class {name}")
        return got


def name_referenced(repo: "Repo", name: str) -> bool:
    """Is a method/function *name* mentioned anywhere in the core modules other
    than in its own ``def`` (attribute access, bare name or string)?"""
    for mn in repo.CORE:
        if not repo.has_mod(mn):
            continue
        for n in ast.walk(repo.mod(mn).tree):
            if isinstance(n, ast.Attribute) and n.attr == name:
                return True
            if isinstance(n, ast.Name) and n.id == name:
                return True
    return False


def isinstance_types(test):
    """For ``isinstance(x, T)`` / ``isinstance(x, (T1, T2))`` return
    (text of x, [type names]) else None."""
    if isinstance(test, ast.Call) and isinstance(test.func, ast.Name) and test.func.id == "isinstance" and len(test.args) == 2:
        t = test.args[1]
        elts = t.elts if isinstance(t, ast.Tuple) else [t]
        names = []
        for e in elts:
            if isinstance(e, ast.Name):
                names.append(e.id)
            elif isinstance(e, ast.Attribute):
                names.append(e.attr)
            elif isinstance(e, ast.Call) and isinstance(e.func, ast.Name) and e.func.id == "type" and e.args and isinstance(e.args[0], ast.Constant) and e.args[0].value is None:
                names.append("NoneType")
            else:
                names.append("?")
        return norm(test.args[0]), names
    return None
