"""E6 LinNorm: small integer expressions -> sum(c_i * atom_i) + c0."""
from __future__ import annotations

import ast
from .model import norm


class NotLinear(Exception):
    pass


def lin(e, resolve=None, _depth=0):
    """Return (coeffs: dict atom_text -> int, const: int).  *resolve* maps a
    Name node to an expression (its single reaching definition) or None."""
    if _depth > 20:
        raise NotLinear()
    if isinstance(e, ast.Constant) and isinstance(e.value, (int,)) and not isinstance(e.value, bool):
        return {}, e.value
    if isinstance(e, ast.UnaryOp) and isinstance(e.op, ast.USub):
        c, k = lin(e.operand, resolve, _depth + 1)
        return {a: -v for a, v in c.items()}, -k
    if isinstance(e, ast.UnaryOp) and isinstance(e.op, ast.UAdd):
        return lin(e.operand, resolve, _depth + 1)
    if isinstance(e, ast.BinOp) and isinstance(e.op, (ast.Add, ast.Sub)):
        c1, k1 = lin(e.left, resolve, _depth + 1)
        c2, k2 = lin(e.right, resolve, _depth + 1)
        sgn = 1 if isinstance(e.op, ast.Add) else -1
        out = dict(c1)
        for a, v in c2.items():
            out[a] = out.get(a, 0) + sgn * v
        return {a: v for a, v in out.items() if v != 0}, k1 + sgn * k2
    if isinstance(e, ast.BinOp) and isinstance(e.op, ast.Mult):
        c1, k1 = lin(e.left, resolve, _depth + 1)
        c2, k2 = lin(e.right, resolve, _depth + 1)
        if not c1:
            return {a: v * k1 for a, v in c2.items()}, k1 * k2
        if not c2:
            return {a: v * k2 for a, v in c1.items()}, k1 * k2
        raise NotLinear()
    if isinstance(e, ast.BinOp) and isinstance(e.op, (ast.Pow, ast.LShift)):
        c1, k1 = lin(e.left, resolve, _depth + 1)
        c2, k2 = lin(e.right, resolve, _depth + 1)
        if not c1 and not c2 and 0 <= k2 <= 4096:
            return {}, (k1 ** k2 if isinstance(e.op, ast.Pow) else k1 << k2)
        raise NotLinear()
    if isinstance(e, ast.Name) and resolve is not None:
        r = resolve(e)
        if r is not None:
            return lin(r, resolve, _depth + 1)
    return {norm(e): 1}, 0


def compare_upper_bound(test, pol, resolve=None):
    """For a guard (test, pol) of the form  lhs OP rhs  return (coeffs, bound)
    meaning  sum(coeffs) <= bound  holds (integers), or None."""
    if not (isinstance(test, ast.Compare) and len(test.ops) == 1):
        return None
    op = type(test.ops[0])
    l, r = test.left, test.comparators[0]
    if not pol:
        op = {ast.Lt: ast.GtE, ast.LtE: ast.Gt, ast.Gt: ast.LtE, ast.GtE: ast.Lt}.get(op)
        if op is None:
            return None
    try:
        cl, kl = lin(l, resolve)
        cr, kr = lin(r, resolve)
    except NotLinear:
        return None
    # bring to  expr <= bound
    if op in (ast.Lt, ast.LtE):
        co = dict(cl)
        for a, v in cr.items():
            co[a] = co.get(a, 0) - v
        bound = kr - kl - (1 if op is ast.Lt else 0)
    elif op in (ast.Gt, ast.GtE):
        co = dict(cr)
        for a, v in cl.items():
            co[a] = co.get(a, 0) - v
        bound = kl - kr - (1 if op is ast.Gt else 0)
    else:
        return None
    return {a: v for a, v in co.items() if v != 0}, bound
