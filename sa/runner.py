"""Runs one property's rules (and, for the thorough tier, the self-validation)."""
from __future__ import annotations

import importlib
import json
import os
from pathlib import Path

from .model import Repo, AnalysisError
from .report import Check

LEVELS = {"C16": ("exploration", True)}


def release_caches():
    """Drop what earlier analyses of (other copies of) the repository left in the per-function caches: the entries keep whole
    module trees alive through the parent links of their nodes (a worker of the seed matrix grew to 4.6 GB that way)."""
    import gc
    from .consteval import FnEval
    from .origin import Origin
    from . import modconst
    FnEval._cache.clear()
    Origin._cache.clear()
    modconst._CACHE.clear()
    gc.collect()


def analyse(pid: str, repo_root: str, tier="quick", seed=0, quiet=False) -> Check:
    mod = importlib.import_module(f"sa.props.{pid.lower()}")
    release_caches()
    repo = Repo(repo_root)
    chk = Check(pid, tier, seed, repo_root, quiet=quiet)
    try:
        mod.run(repo, chk)
    except AnalysisError as e:
        # an anchor vanished part-way: violations found so far are still
        # reported (exit 1); without any, the run is analysis-broken (exit 2)
        chk.anchor_error = str(e)
    chk.extra["units_parsed"] = repo.units_parsed
    return chk


def run_check(pid, tier, seed, repo_root, replay=None, write=True):
    if not Path(f"{os.path.dirname(__file__)}/props/{pid.lower()}.py").is_file():
        raise AnalysisError(f"no checker for property {pid}")
    level, exhaustive = LEVELS.get(pid, ("other", False))
    if replay:
        rp = json.loads(Path(replay).read_text())
        chk = analyse(pid, repo_root, tier, seed, quiet=True)
        hits = [f for f in chk.findings if f["rule"] == rp["rule"] and f["key"] == rp["key"]]
        if hits:
            print(f"replay: {rp['rule']} {rp['key']} still violated: {hits[0]['msg']} ({hits[0]['where']})")
            print(f"VIOLATION property={pid} replay={replay}")
            return 1
        print(f"replay: {rp['rule']} {rp['key']} holds on the current tree")
        return 0
    chk = analyse(pid, repo_root, tier, seed)
    selfval = None
    if tier == "thorough":
        from . import selfval as sv

        selfval = sv.run(pid, repo_root, seed, chk)
        chk.extra["self_validation"] = selfval
    code, ev, violations, known = chk.finish(level=level, exhaustive=exhaustive, write=write)
    return code
