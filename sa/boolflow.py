"""E11 — evaluation of straight-line / branching code over the booleans.

Many clauses are of the form "for every combination of a few yes/no facts the
flags end up as the specification says" (which arm of a constant `if` is kept,
whether a function is emitted, which convention is used).  The code that
computes such flags is a handful of `if` statements and assignments over
boolean expressions; which *shape* it has (nested ifs, one conditional
expression, `a = a and b`, a helper that was expanded) must not matter.

`enumerate_states(stmts, stop)` executes the statements abstractly:

* a value is a Python `bool`, a constant, or an `Opaque(key)` — anything the
  evaluator does not compute; `key` is the source text with every local name
  replaced by what it stands for, so that `isinstance(test_node, X)` before and
  after `test_node = test_node.operand` are different facts;
* the truth of an opaque value is an *atom*; atoms are decided lazily: the first
  time an undecided atom is needed the run is split in two, so only the atoms
  that matter on a path are enumerated (a decision tree, not 2^n);
* statements understood: assignments to names (also tuple unpacking of tuples),
  augmented boolean assignments, `if`/`elif`/`else`, `raise`, `return`, `pass`,
  expression statements (ignored); anything else that assigns one of the names
  read later makes that name opaque.  `stop(stmt)` ends a path.

Nothing of the repository is executed: the statements are syntax trees.
"""
from __future__ import annotations

import ast
from .model import norm


class Opaque:
    __slots__ = ("key",)

    def __init__(self, key):
        self.key = key

    def __repr__(self):
        return f"<{self.key}>"


class _Need(Exception):
    def __init__(self, atom):
        self.atom = atom


class TooManyStates(Exception):
    pass


def _subst_text(e, env):
    """source text of e with local names replaced by what they stand for"""
    class S(ast.NodeTransformer):
        def visit_Name(self, n):
            if isinstance(n.ctx, ast.Load) and n.id in env:
                v = env[n.id]
                if isinstance(v, Opaque):
                    try:
                        return ast.parse(v.key, mode="eval").body
                    except SyntaxError:
                        return ast.Name(id=f"<{v.key}>", ctx=ast.Load())
                if isinstance(v, (bool, int, float, str)) or v is None:
                    return ast.Constant(value=v)
            return n
    from .inline import _clone
    return norm(S().visit(_clone(e)))


class Flow:
    def __init__(self, assign):
        self.assign = assign

    # ------------------------------------------------------------ values
    def atom(self, key):
        if key not in self.assign:
            raise _Need(key)
        return self.assign[key]

    def truth(self, v):
        if isinstance(v, Opaque):
            return self.atom(v.key)
        return bool(v)

    def value(self, e, env):
        if isinstance(e, ast.Constant):
            return e.value
        if isinstance(e, ast.Name):
            if e.id in env:
                return env[e.id]
            return Opaque(e.id)
        if isinstance(e, ast.UnaryOp) and isinstance(e.op, ast.Not):
            return not self.truth(self.value(e.operand, env))
        if isinstance(e, ast.BoolOp):
            last = None
            for x in e.values:
                last = self.value(x, env)
                t = self.truth(last)
                if isinstance(e.op, ast.And) and not t:
                    return last if not isinstance(last, Opaque) else False
                if isinstance(e.op, ast.Or) and t:
                    return last if not isinstance(last, Opaque) else True
            return last if not isinstance(last, Opaque) else self.truth(last)
        if isinstance(e, ast.IfExp):
            return self.value(e.body if self.truth(self.value(e.test, env)) else e.orelse, env)
        if isinstance(e, ast.Call) and isinstance(e.func, ast.Name) and e.func.id == "bool" and len(e.args) == 1 and not e.keywords:
            return self.truth(self.value(e.args[0], env))
        if isinstance(e, ast.Compare) and len(e.ops) == 1 and isinstance(e.ops[0], (ast.Eq, ast.NotEq, ast.Is, ast.IsNot)):
            a, b = self.value(e.left, env), self.value(e.comparators[0], env)
            if not isinstance(a, Opaque) and not isinstance(b, Opaque):
                same = (a is b) if isinstance(e.ops[0], (ast.Is, ast.IsNot)) and (a is None or b is None or isinstance(a, bool) or isinstance(b, bool)) else (a == b)
                return same if isinstance(e.ops[0], (ast.Eq, ast.Is)) else not same
            return Opaque(_subst_text(e, env))
        if isinstance(e, ast.Tuple):
            return tuple(self.value(x, env) for x in e.elts)
        return Opaque(_subst_text(e, env))

    # ------------------------------------------------------------ statements
    def run(self, stmts, env, stop):
        """'fall' | 'stop' | 'raise' | 'return'"""
        for st in stmts:
            if stop(st):
                return "stop"
            if isinstance(st, ast.Assign):
                v = self.value(st.value, env)
                for t in st.targets:
                    self._bind(t, v, env)
            elif isinstance(st, ast.AnnAssign) and st.value is not None:
                self._bind(st.target, self.value(st.value, env), env)
            elif isinstance(st, ast.AugAssign) and isinstance(st.target, ast.Name) and isinstance(st.op, (ast.BitAnd, ast.BitOr)):
                a, b = self.truth(self.value(ast.Name(id=st.target.id, ctx=ast.Load()), env)), self.truth(self.value(st.value, env))
                env[st.target.id] = (a and b) if isinstance(st.op, ast.BitAnd) else (a or b)
            elif isinstance(st, ast.If):
                r = self.run(st.body if self.truth(self.value(st.test, env)) else st.orelse, env, stop)
                if r != "fall":
                    return r
            elif isinstance(st, ast.Raise):
                return "raise"
            elif isinstance(st, ast.Return):
                env["<return>"] = self.value(st.value, env) if st.value is not None else None
                return "return"
            elif isinstance(st, (ast.Expr, ast.Pass, ast.Import, ast.ImportFrom)):
                continue
            else:
                # loops, with, try ...: every name they may assign becomes unknown
                for x in ast.walk(st):
                    if isinstance(x, ast.Name) and isinstance(x.ctx, ast.Store):
                        env[x.id] = Opaque(f"{x.id}@{getattr(st, 'lineno', 0)}")
        return "fall"

    def _bind(self, t, v, env):
        if isinstance(t, ast.Name):
            env[t.id] = v
        elif isinstance(t, (ast.Tuple, ast.List)) and isinstance(v, tuple) and len(v) == len(t.elts):
            for tt, vv in zip(t.elts, v):
                self._bind(tt, vv, env)
        elif isinstance(t, (ast.Tuple, ast.List)):
            for x in ast.walk(t):
                if isinstance(x, ast.Name):
                    env[x.id] = Opaque(f"{x.id}@unpacked")
        # stores into attributes / subscripts do not change local names


def enumerate_states(stmts, stop=lambda st: False, init=None, max_states=4096):
    """[(atom assignment, env, status)] for every feasible combination of the atoms that are actually consulted."""
    out = []
    stack = [dict()]
    while stack:
        assign = stack.pop()
        env = dict(init or {})
        try:
            status = Flow(assign).run(stmts, env, stop)
        except _Need as n:
            stack.append({**assign, n.atom: True})
            stack.append({**assign, n.atom: False})
            continue
        out.append((assign, env, status))
        if len(out) > max_states:
            raise TooManyStates(f"more than {max_states} states")
    return out


def truth_in(state_env, assign, name):
    """truth of a local at the end of a path (deciding its atom if it is opaque and decided), else None"""
    v = state_env.get(name, Opaque(name))
    if isinstance(v, Opaque):
        return assign.get(v.key)
    return bool(v)
