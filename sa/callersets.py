"""E12 — abstract interpretation of the construction of `called_from` in
register_assignment.assign_registers.

`called_from[scope]` is the set of scopes a scope is entered from; the register
allocator processes a scope after all of them and keeps clear of their
registers.  Two clauses of C04/C13 are statements about these sets:

  * every function scope is entered from EVERY library module scope, and
  * the module scopes form a chain (main scope, then the modules in order).

How the sets are put together is a matter of taste — a loop with `.add`, a
second loop with `.update`, a dict comprehension with a union, an accumulator
or a slice of the sorted names.  Instead of recognising each spelling, the
statements that touch `called_from` are interpreted over a small abstract
domain:

    key classes   func (a function other than the main entry), main (''), module
    atoms         CALLS  the scopes of the function's call sites
                  MODS   all library modules
                  MAIN   the main scope ''
                  PREV   the modules ordered before the current one
                  SELF   the current module itself

The value of a key class is the set of atoms that are GUARANTEED to be in the
entry (conditional contributions are intersected away).  Anything the
interpreter does not understand and that touches the table raises
`Unsupported`; the caller then reports "not understood", never a verdict.
Nothing of the repository is executed.
"""
from __future__ import annotations

import ast
from .model import norm


class Unsupported(Exception):
    pass


CALLS, MODS, MAIN, PREV, SELF = "CALLS", "MODS", "MAIN", "PREV", "SELF"


class Interp:
    def __init__(self, fn, table="called_from"):
        self.fn = fn
        self.table = table
        self.state = {}          # key class -> frozenset(atoms)
        self.env = {}            # local name -> frozenset(atoms) (set-valued locals) | ("modlist",) marker
        self.lists = set()       # locals that hold the (sorted) list / set of module names
        self.notes = []

    # ------------------------------------------------------------------ helpers
    def is_modules(self, e, depth=0):
        """data.modules / its keys, through set/sorted/list/tuple and locals known to hold them"""
        if depth > 6:
            return False
        t = norm(e)
        if t in ("data.modules", "data.modules.keys()", "self.data.modules", "self.data.modules.keys()"):
            return True
        if isinstance(e, ast.Call) and norm(e.func) in ("set", "sorted", "list", "tuple", "frozenset") and len(e.args) >= 1:
            return self.is_modules(e.args[0], depth + 1)
        if isinstance(e, ast.Name):
            return e.id in self.lists
        return False

    def is_functions(self, e):
        t = norm(e)
        return t in ("data.functions", "data.functions.keys()", "data.functions.items()", "sorted(data.functions)", "sorted(data.functions.items())",
                     "sorted(data.functions.keys())", "list(data.functions.items())", "list(data.functions)")

    def key_test(self, t, keyvar, cls):
        """truth of a test on the key variable for the key class, or None if the test is about something else"""
        if isinstance(t, ast.UnaryOp) and isinstance(t.op, ast.Not):
            v = self.key_test(t.operand, keyvar, cls)
            return None if v is None else not v
        if isinstance(t, ast.Name) and t.id == keyvar:
            return cls != "main"
        if isinstance(t, ast.Compare) and len(t.ops) == 1:
            l, r = t.left, t.comparators[0]
            names = [x for x in (l, r) if isinstance(x, ast.Name) and x.id == keyvar]
            consts = [x for x in (l, r) if isinstance(x, ast.Constant) and x.value == ""]
            if names and consts:
                eq = cls == "main"
                if isinstance(t.ops[0], (ast.Eq, ast.Is)):
                    return eq
                if isinstance(t.ops[0], (ast.NotEq, ast.IsNot)):
                    return not eq
        if isinstance(t, ast.BoolOp):
            vs = [self.key_test(v, keyvar, cls) for v in t.values]
            if any(v is None for v in vs):
                return None
            return all(vs) if isinstance(t.op, ast.And) else any(vs)
        return None

    # ------------------------------------------------------------------ set expressions
    def seval(self, e, ctx):
        """atoms guaranteed to be in the value of the set expression e; ctx = dict(cls, keyvar, modvar, posvar, funcvar)"""
        if isinstance(e, ast.Call):
            f = norm(e.func)
            if f in ("set", "frozenset", "list", "tuple", "sorted") and not e.args:
                return frozenset()
            if f in ("set", "frozenset", "list", "tuple", "sorted") and e.args:
                return self.seval(e.args[0], ctx)
            if isinstance(e.func, ast.Attribute) and e.func.attr == "copy" and not e.args:
                return self.seval(e.func.value, ctx)
            if isinstance(e.func, ast.Attribute) and e.func.attr == "union":
                out = self.seval(e.func.value, ctx)
                for a in e.args:
                    out |= self.seval(a.value if isinstance(a, ast.Starred) else a, ctx)
                return out
            if isinstance(e.func, ast.Attribute) and e.func.attr == "get" and norm(e.func.value) == self.table and e.args:
                return self.entry(e.args[0], ctx)
            return frozenset()        # an unknown call contributes nothing that is guaranteed
        if isinstance(e, (ast.Set, ast.List, ast.Tuple)):
            out = frozenset()
            for el in e.elts:
                if isinstance(el, ast.Starred):
                    out |= self.seval(el.value, ctx)
                elif isinstance(el, ast.Constant) and el.value == "":
                    out |= {MAIN}
                elif isinstance(el, ast.Name) and el.id == ctx.get("modvar"):
                    out |= {SELF}
            return out
        if isinstance(e, (ast.SetComp, ast.ListComp, ast.GeneratorExp)):
            g = e.generators[0]
            if len(e.generators) == 1 and norm(g.iter).endswith(".nodes_reading") and not g.ifs:
                return frozenset({CALLS})
            if len(e.generators) == 1 and not g.ifs and isinstance(e.elt, ast.Name) and isinstance(g.target, ast.Name) and e.elt.id == g.target.id:
                return self.seval(g.iter, ctx)
            return frozenset()
        if isinstance(e, ast.BinOp) and isinstance(e.op, ast.BitOr):
            return self.seval(e.left, ctx) | self.seval(e.right, ctx)
        if isinstance(e, ast.BinOp) and isinstance(e.op, ast.BitAnd):
            return self.seval(e.left, ctx) & self.seval(e.right, ctx)
        if isinstance(e, ast.BinOp) and isinstance(e.op, ast.Sub):
            return frozenset()        # a difference guarantees nothing
        if isinstance(e, ast.IfExp):
            kv = self.key_test(e.test, ctx.get("keyvar"), ctx.get("cls")) if ctx.get("keyvar") else None
            if kv is True:
                return self.seval(e.body, ctx)
            if kv is False:
                return self.seval(e.orelse, ctx)
            return self.seval(e.body, ctx) & self.seval(e.orelse, ctx)
        if isinstance(e, ast.Subscript):
            if norm(e.value) == self.table:
                return self.entry(e.slice, ctx)
            if isinstance(e.slice, ast.Slice) and self.is_modules(e.value):
                s = e.slice
                if s.lower is None and s.step is None and s.upper is not None and isinstance(s.upper, ast.Name) and s.upper.id == ctx.get("posvar"):
                    return frozenset({PREV})
                return frozenset()
        if self.is_modules(e):
            return frozenset({MODS})
        if isinstance(e, ast.Name) and e.id in self.env:
            return self.env[e.id]
        if isinstance(e, ast.Constant):
            return frozenset()
        return frozenset()

    def entry(self, key, ctx):
        cls = self.key_class(key, ctx)
        return self.state.get(cls, frozenset()) if cls else frozenset()

    def key_class(self, key, ctx):
        if isinstance(key, ast.Constant) and key.value == "":
            return "main"
        if isinstance(key, ast.Name):
            if key.id == ctx.get("keyvar"):
                return ctx.get("cls")
            if key.id == ctx.get("modvar"):
                return "module"
        return None

    # ------------------------------------------------------------------ statements
    def touches(self, node):
        return any(isinstance(x, ast.Name) and x.id == self.table for x in ast.walk(node))

    def run(self):
        self.block(self.fn.body, {})
        return self.state

    def block(self, stmts, ctx):
        for st in stmts:
            self.stmt(st, ctx)

    def stmt(self, st, ctx):
        t = self.table
        # ---- definitions of locals that matter
        if isinstance(st, ast.Assign) and len(st.targets) == 1 and isinstance(st.targets[0], ast.Name):
            name, v = st.targets[0].id, st.value
            if name == t:
                if isinstance(v, ast.Dict) and not v.keys or norm(v) in ("dict()", "{}"):
                    self.state = {}
                    return
                if isinstance(v, ast.DictComp):
                    self.dictcomp(v)
                    return
                if isinstance(v, ast.Call) and norm(v.func) == "dict" and len(v.args) == 1 and isinstance(v.args[0], (ast.GeneratorExp, ast.ListComp)) \
                        and isinstance(v.args[0].elt, ast.Tuple) and len(v.args[0].elt.elts) == 2:
                    g = v.args[0]
                    self.dictcomp(ast.DictComp(key=g.elt.elts[0], value=g.elt.elts[1], generators=g.generators))
                    return
                raise Unsupported(f"{t} = {norm(v)[:60]}")
            if self.is_modules(v):
                self.lists.add(name)
                self.env[name] = frozenset({MODS})
                return
            if not self.touches(v):
                # a set-valued local (accumulator, default): keep what is guaranteed
                if isinstance(v, (ast.Set, ast.List, ast.Tuple, ast.SetComp, ast.BinOp, ast.IfExp)) or isinstance(v, ast.Call) and norm(v.func) in ("set", "frozenset", "sorted", "list"):
                    self.env[name] = self.seval(v, ctx)
                return
            # a local that aliases an entry: not followed
            raise Unsupported(f"{norm(st)[:70]}")
        if isinstance(st, ast.Assign) and len(st.targets) == 1 and isinstance(st.targets[0], ast.Subscript) and norm(st.targets[0].value) == t:
            cls = self.key_class(st.targets[0].slice, ctx)
            if cls is None:
                raise Unsupported(f"key of {norm(st)[:70]}")
            self.state[cls] = self.seval(st.value, ctx)
            return
        if isinstance(st, ast.AugAssign) and isinstance(st.target, ast.Subscript) and norm(st.target.value) == t and isinstance(st.op, ast.BitOr):
            cls = self.key_class(st.target.slice, ctx)
            if cls is None:
                raise Unsupported(f"key of {norm(st)[:70]}")
            self.state[cls] = self.state.get(cls, frozenset()) | self.seval(st.value, ctx)
            return
        if isinstance(st, ast.Expr) and isinstance(st.value, ast.Call) and isinstance(st.value.func, ast.Attribute):
            c = st.value
            recv, meth = c.func.value, c.func.attr
            # called_from[k].add(x) / .update(S)   and   <value variable of .items()/.values()>.update(S)
            cls = None
            if isinstance(recv, ast.Subscript) and norm(recv.value) == t:
                cls = self.key_class(recv.slice, ctx)
                if cls is None:
                    raise Unsupported(f"key of {norm(st)[:70]}")
            elif isinstance(recv, ast.Name) and recv.id == ctx.get("valvar"):
                cls = ctx.get("cls")
            elif isinstance(recv, ast.Call) and isinstance(recv.func, ast.Attribute) and recv.func.attr == "setdefault" and norm(recv.func.value) == t and recv.args:
                cls = self.key_class(recv.args[0], ctx)
                if cls is None:
                    raise Unsupported(f"key of {norm(st)[:70]}")
                self.state.setdefault(cls, frozenset())
            if cls is not None:
                if meth == "update":
                    add = frozenset()
                    for a in c.args:
                        add |= self.seval(a, ctx)
                    self.state[cls] = self.state.get(cls, frozenset()) | add
                    return
                if meth == "add" and c.args:
                    a = c.args[0]
                    add = frozenset()
                    if ctx.get("in_calls"):
                        add = frozenset({CALLS})
                    elif isinstance(a, ast.Constant) and a.value == "":
                        add = frozenset({MAIN})
                    self.state[cls] = self.state.get(cls, frozenset()) | add
                    return
                if meth in ("discard", "remove", "clear", "pop", "difference_update", "intersection_update"):
                    self.state[cls] = frozenset()
                    return
                raise Unsupported(f"{norm(st)[:70]}")
            # accumulators:  acc.add(module) / acc.update(..)
            if isinstance(recv, ast.Name) and recv.id in self.env and not self.touches(st):
                if meth == "add" and c.args and isinstance(c.args[0], ast.Name) and c.args[0].id == ctx.get("modvar"):
                    self.env[recv.id] = self.env[recv.id] | {SELF}
                elif meth == "update" and c.args:
                    self.env[recv.id] = self.env[recv.id] | self.seval(c.args[0], ctx)
                return
            if self.touches(st):
                raise Unsupported(f"{norm(st)[:70]}")
            return
        if isinstance(st, ast.If):
            kv = self.key_test(st.test, ctx.get("keyvar"), ctx.get("cls")) if ctx.get("keyvar") else None
            if kv is True:
                return self.flow(st.body, ctx)
            if kv is False:
                return self.flow(st.orelse, ctx)
            if not self.touches(st):
                return
            # a test on something else: only what both arms guarantee
            before = dict(self.state)
            self.flow(st.body, ctx)
            a = dict(self.state)
            self.state = dict(before)
            self.flow(st.orelse, ctx)
            b = dict(self.state)
            self.state = {k: a.get(k, frozenset()) & b.get(k, frozenset()) for k in set(a) | set(b) if k in a and k in b}
            return
        if isinstance(st, ast.For):
            return self.loop(st, ctx)
        if isinstance(st, ast.Continue):
            raise _Skip()
        if isinstance(st, (ast.While, ast.Try, ast.With)) and self.touches(st):
            # the ordering loop only reads the table
            stores = [x for x in ast.walk(st) if isinstance(x, ast.Subscript) and norm(x.value) == t and isinstance(x.ctx, ast.Store)]
            muts = [x for x in ast.walk(st) if isinstance(x, ast.Call) and isinstance(x.func, ast.Attribute) and x.func.attr in ("add", "update", "setdefault", "pop")
                    and t in norm(x.func.value)]
            if stores or muts:
                raise Unsupported(f"{type(st).__name__} statement that changes {t}")
            return
        # anything else that writes the table
        if self.touches(st) and any(isinstance(x, ast.Subscript) and norm(x.value) == t and isinstance(x.ctx, (ast.Store, ast.Del)) for x in ast.walk(st)):
            raise Unsupported(f"{norm(st)[:70]}")

    def flow(self, stmts, ctx):
        for s in stmts:
            self.stmt(s, ctx)

    def loop(self, lp, ctx):
        t = self.table
        it = lp.iter
        itn = norm(it)
        body = lp.body
        # ---- over the functions
        if self.is_functions(it) or itn in (t, f"{t}.keys()", f"{t}.items()", f"{t}.values()", f"sorted({t})", f"list({t})", f"list({t}.items())"):
            keyvar = valvar = None
            if isinstance(lp.target, ast.Name):
                if itn.endswith(".values()"):
                    valvar = lp.target.id
                else:
                    keyvar = lp.target.id
            elif isinstance(lp.target, ast.Tuple) and len(lp.target.elts) == 2 and all(isinstance(x, ast.Name) for x in lp.target.elts):
                keyvar = lp.target.elts[0].id
                if not self.is_functions(it):
                    valvar = lp.target.elts[1].id
            over_table = not self.is_functions(it)
            classes = [c for c in ("func", "main", "module") if c in self.state] if over_table else ["func", "main"]
            if valvar and not keyvar:
                # for s in called_from.values(): every entry alike
                pass
            for cls in classes:
                c2 = dict(ctx, cls=cls, keyvar=keyvar, valvar=valvar)
                try:
                    self.flow(body, c2)
                except _Skip:
                    pass
            return
        # ---- over the call sites of the current function
        if itn.endswith(".nodes_reading") and ctx.get("cls"):
            try:
                self.flow(body, dict(ctx, in_calls=True))
            except _Skip:
                pass
            return
        # ---- over the modules
        base = it
        posvar = None
        if isinstance(it, ast.Call) and norm(it.func) == "enumerate" and it.args:
            base = it.args[0]
            if isinstance(lp.target, ast.Tuple) and len(lp.target.elts) == 2 and isinstance(lp.target.elts[0], ast.Name):
                posvar = lp.target.elts[0].id
        if self.is_modules(base):
            modvar = lp.target.id if isinstance(lp.target, ast.Name) else (lp.target.elts[-1].id if isinstance(lp.target, ast.Tuple) and isinstance(lp.target.elts[-1], ast.Name) else None)
            ordered = isinstance(base, ast.Call) and norm(base.func) == "sorted" or isinstance(base, ast.Name) and base.id in self.lists
            # accumulators that receive the module of the current round hold, from the second round on, the earlier modules
            for x in ast.walk(ast.Module(body=body, type_ignores=[])):
                if isinstance(x, ast.Call) and isinstance(x.func, ast.Attribute) and x.func.attr == "add" and isinstance(x.func.value, ast.Name) and x.func.value.id in self.env \
                        and x.args and isinstance(x.args[0], ast.Name) and x.args[0].id == modvar:
                    self.env[x.func.value.id] = self.env[x.func.value.id] | {PREV}
            c2 = dict(ctx, cls="module", keyvar=None, modvar=modvar, posvar=posvar, ordered=ordered)
            try:
                self.flow(body, c2)
            except _Skip:
                pass
            return
        if self.touches(lp) and any(isinstance(x, ast.Subscript) and norm(x.value) == t and isinstance(x.ctx, ast.Store) for x in ast.walk(lp)) or \
                any(isinstance(x, ast.Call) and isinstance(x.func, ast.Attribute) and x.func.attr in ("add", "update") and t in norm(x.func.value) for x in ast.walk(lp)):
            raise Unsupported(f"loop over {itn[:50]} changes {t}")

    def dictcomp(self, dc):
        if len(dc.generators) != 1:
            raise Unsupported("dict comprehension with several generators")
        g = dc.generators[0]
        if norm(g.iter) in (f"{self.table}.items()", f"list({self.table}.items())", f"sorted({self.table}.items())") and isinstance(g.target, ast.Tuple) \
                and len(g.target.elts) == 2 and all(isinstance(x, ast.Name) for x in g.target.elts) and norm(dc.key) == g.target.elts[0].id and not g.ifs:
            # the table rebuilt from itself: {name: f(callers) for name, callers in called_from.items()}
            keyvar, valvar = g.target.elts[0].id, g.target.elts[1].id
            old = dict(self.state)
            new = {}
            for cls, val in old.items():
                self.env[valvar] = val
                new[cls] = self.seval(dc.value, dict(cls=cls, keyvar=keyvar))
            self.env.pop(valvar, None)
            self.state = new
            return
        if not self.is_functions(g.iter):
            raise Unsupported(f"dict comprehension over {norm(g.iter)[:50]}")
        keyvar = g.target.id if isinstance(g.target, ast.Name) else (g.target.elts[0].id if isinstance(g.target, ast.Tuple) and isinstance(g.target.elts[0], ast.Name) else None)
        if keyvar is None or norm(dc.key) != keyvar:
            raise Unsupported("dict comprehension: key is not the function name")
        self.state = {}
        for cls in ("func", "main"):
            ctx = dict(cls=cls, keyvar=keyvar)
            keep = True
            for cond in g.ifs:
                kv = self.key_test(cond, keyvar, cls)
                if kv is False:
                    keep = False
                elif kv is None:
                    raise Unsupported("dict comprehension with a filter that is not about the key")
            if keep:
                self.state[cls] = self.seval(dc.value, ctx)


class _Skip(Exception):
    pass


def caller_sets(fn, table="called_from"):
    """{key class: guaranteed atoms} after the statements of fn that build the table, or raise Unsupported"""
    return Interp(fn, table).run()
