"""Self-validation corpus: variants of the repository source.

Each variant names a file of the package and a list of (old, new) text edits
computed against the *current* source (an edit whose old text is absent makes
the variant 'skipped', never a failure: the corpus tests the checker, not the
repository).  ``expect`` lists the rule(s) of which at least one must report a
new finding; ``neutral`` variants must produce no new finding at all.
The variants need not pass the repository's tests: they exercise the rules.
"""
from __future__ import annotations

from pathlib import Path

from .model import PKG

G, U, CP, T, RA, C, D = "generate_code.py", "utils.py", "compile_pass.py", "types.py", "register_assignment.py", "compiler.py", "mod_daemon.py"


def M(name, file, edits, expect, all_=False):
    return {"name": name, "file": file, "edits": edits, "expect": expect, "all": all_}


def N(name, file, edits, all_=False):
    return {"name": name, "file": file, "edits": edits, "neutral": True, "all": all_}


_GUARD_CONSTPROP = M("const-propagation-without-single-assignment", CP, [("                if not sym.is_overwritten:\n                    for read_node in", "                if True:\n                    for read_node in")], ["R01.c", "R03.d"])
_MODULE_LIFETIME = M("unbounded-lifetime-only-for-main-module", T, [("                if isinstance(scope, nodes.Module):", '                if scope.name == "":')], ["R04.e", "R13.d"])

CORPUS = {
    "C01": [
        M("negated-table-row", U, [('        "<": "ge",', '        "<": "gt",')], ["R01.a"]),
        M("branch-variant-row", U, [('    "sdse": "bdns",', '    "sdse": "bdse",')], ["R01.a"]),
        M("if-compare-polarity-flipped", G, [("                if negate_test\n                else get_negated_comparison_suffix(cmp_op)", "                if not negate_test\n                else get_negated_comparison_suffix(cmp_op)")], ["R01.b"]),
        M("if-truthiness-flipped", G, [('"bnez" if negate_test else "beqz"', '"beqz" if negate_test else "bnez"')], ["R01.b"]),
        M("if-truthiness-ignores-not", G, [('IC10("bnez" if negate_test else "beqz", [test, else_label])', 'IC10("beqz", [test, else_label])')], ["R01.b"]),
        M("while-uses-plain-suffix", G, [('            instruction = "b" + get_negated_comparison_suffix(cmp_op)\n            data.add(IC10(instruction, [left, right, end_label]))', '            instruction = "b" + get_comparison_suffix(cmp_op)\n            data.add(IC10(instruction, [left, right, end_label]))')], ["R01.b"]),
        M("compare-materialised-negated", G, [('instruction = "s" + get_comparison_suffix(node.ops[0][0])', 'instruction = "s" + get_negated_comparison_suffix(node.ops[0][0])')], ["R01.b"]),
        M("negation-not-passed-to-helper", G, [("test_node, else_label, negate_test\n        ):", "test_node, else_label\n        ):")], ["R01.b"]),
        M("constant-test-ignores-not", G, [("            if bool(test_data.constant_value) != negate_test:\n                emit_else = False\n            else:\n                emit_if = False", "            if bool(test_data.constant_value):\n                emit_else = False\n            else:\n                emit_if = False")], ["R01.b"]),
        M("alias-without-single-assignment", G, [("                can_assign_directly = not sym_data.is_overwritten and not (\n                    isinstance(value, IC10Register) and value.is_overwritten\n                )\n", "                can_assign_directly = True\n")], ["R01.c"]),
        M("inline-arg-alias-unguarded", G, [("                if arg_sym.is_overwritten:\n                    # need to copy", "                if False:\n                    # need to copy")], ["R01.c"]),
        _GUARD_CONSTPROP,
        M("list-index-overwritten-by-its-result", G, [("        if sym is index:\n            # 'i = [..][i]': the instructions below still read the index after\n            # the first of them has written the result\n            sym = self.get_intermediate_symbol(node, True)\n", "")], ["R01.i"]),
        M("ifexp-else-arm-gathered-twice", G, [("            if isinstance(node, nodes.If):\n                for child in node.orelse:\n                    self._visit_node(child)\n", "            if isinstance(node, nodes.If):\n                for child in node.orelse:\n                    self._visit_node(child)\n            if isinstance(node, nodes.IfExp):\n                self._visit_node(node.orelse)\n")], ["R01.p"]),
        M("alias-of-a-reassigned-value", G, [("                can_assign_directly = not sym_data.is_overwritten and not (\n                    isinstance(value, IC10Register) and value.is_overwritten\n                )\n", "                can_assign_directly = not sym_data.is_overwritten\n")], ["R01.c"]),
        M("prune-name-read-once", CP, [("            if sym_data.is_read == 0:\n                # print", "            if sym_data.is_read <= 1:\n                # print")], ["R01.d"]),
        M("prune-if-arm-without-constness", G, [("        elif isinstance(test_node, (nodes.BoolOp, nodes.Name, nodes.Attribute)):\n            data.add(", "        elif isinstance(test_node, (nodes.BoolOp, nodes.Name, nodes.Attribute)):\n            emit_else = False\n            data.add(")], ["R01.d"]),
        M("continue-skips-increment", G, [("        data.start_label = continue_label\n        data.end_label = end_label\n\n        iter_sym", "        data.start_label = for_label\n        data.end_label = end_label\n\n        iter_sym")], ["R01.e"]),
        M("while-forgets-break-label", G, [("        data.start_label = while_label\n        data.end_label = end_label\n", "        data.start_label = while_label\n")], ["R01.e"]),
        M("range-exit-test-strict", G, [('"bge" if is_increasing else "ble"', '"bgt" if is_increasing else "ble"')], ["R01.f"]),
        M("range-direction-inverted", G, [('"bge" if is_increasing else "ble"', '"ble" if is_increasing else "bge"')], ["R01.f"]),
        M("shift-row-wrong-opcode", U, [('">>": ("srl",', '">>": ("sll",')], ["R01.g"]),
        M("binop-operands-swapped", G, [("data.add_end(IC10(instruction, [left_name, right_name], sym))", "data.add_end(IC10(instruction, [right_name, left_name], sym))")], ["R01.h"]),
        M("ifexp-arms-swapped", G, [('IC10("select", [test, left, right], sym)', 'IC10("select", [test, right, left], sym)')], ["R01.h"]),
        M("unary-minus-operands", G, [("data.add_end(IC10(opcode, [0, opname], sym))", "data.add_end(IC10(opcode, [opname, 0], sym))")], ["R01.h"]),
        M("range-two-args-swapped", G, [("            start = self.compile_node(args[0])\n            end = self.compile_node(args[1])\n        elif n_args == 3:", "            start = self.compile_node(args[1])\n            end = self.compile_node(args[0])\n        elif n_args == 3:")], ["R01.h"]),
        M("select-pair-swapped", G, [('data.add(IC10("select", [index, array[1], array[0]], sym))', 'data.add(IC10("select", [index, array[0], array[1]], sym))')], ["R01.i"]),
        M("select-chain-wrong-element", G, [('data.add(IC10("select", [t, array[i], sym], sym))', 'data.add(IC10("select", [t, array[i - 1], sym], sym))')], ["R01.i"]),
        M("batch-load-mode-before-type", T, [('"lb", [self._device_hash, self._logic_type, batch_mode], r', '"lb", [self._device_hash, batch_mode, self._logic_type], r')], ["R01.l"]),
        N("rename-negation-flag", G, [("negate_test", "is_negated")], all_=True),
        N("reorder-table-rows", U, [('        "==": "eq",\n        "!=": "ne",\n        "<": "lt",', '        "!=": "ne",\n        "<": "lt",\n        "==": "eq",')]),
        N("opcode-through-local", G, [('        data.add(IC10("bge" if is_increasing else "ble", [iter_sym, end, end_label]))', '        exit_test = "bge" if is_increasing else "ble"\n        data.add(IC10(exit_test, [iter_sym, end, end_label]))')]),
    ],
    "C02": [
        M("layout-option-read-in-generator", G, [('        test = node.test\n        while_label, end_label = self.get_label("while", "while.end")', '        test = node.test\n        _compact = self.data.options.compact\n        while_label, end_label = self.get_label("while", "while.end")')], ["R02.b"]),
        M("remove-labels-read-in-register-assignment", RA, [("    registers = list(range(16))", "    registers = list(range(16 if not data.options.remove_labels else 16))")], ["R02.b"]),
        M("mode-read-in-generator", G, [("        data = node._ndata\n        if isinstance(node.value, bool):", "        data = node._ndata\n        from .utils import is_compact_output\n        _c = is_compact_output()\n        if isinstance(node.value, bool):")], ["R02.b"]),
        M("return-inlines-on-option-alone", G, [("        do_inline = self.data.options.inline_functions and func_data.can_inline\n\n        data = node._ndata\n        if node.value is not None:", "        do_inline = self.data.options.inline_functions\n\n        data = node._ndata\n        if node.value is not None:")], ["R02.c"]),
        M("gather-inlines-with-or", G, [("if self.data.options.inline_functions and func.can_inline:", "if self.data.options.inline_functions or func.can_inline:")], ["R02.c"]),
        M("return-role-missing-under-push-pop", G, [('                if self.data.options.use_push_pop_functions:\n                    data.add(IC10("push", [d]))\n                else:\n                    data.add(IC10("put", ["db", _RETURN_VALUE_ADDRESS, d]))', '                data.add(IC10("put", ["db", _RETURN_VALUE_ADDRESS, d]))')], ["R02.d"]),
        M("final-jump-ignores-tail-flag", G, [("if (not apply_tail_call_optimization or has_early_return) and (", "if (has_early_return or True) and (")], ["R02.e"]),
        M("mode-set-before-the-pragma-scan", C, [('    main_module = src[""] if isinstance(src, dict) else src\n', '    set_output_mode(OutputMode.COMPACT if options.compact else OutputMode.VERBOSE)\n    main_module = src[""] if isinstance(src, dict) else src\n')], ["R02.a"]),
        N("rename-do-inline", G, [("do_inline", "inline_it")], all_=True),
        N("de-morgan-inline-predicate", G, [("(not func_data.can_inline or not self.data.options.inline_functions)", "not (func_data.can_inline and self.data.options.inline_functions)")]),
    ],
    "C03": [
        M("or-row-evaluates-and", U, [('"or": ("or", lambda x, y: int(_e(x)) | int(_e(y))),', '"or": ("or", lambda x, y: int(_e(x)) & int(_e(y))),')], ["R03.a", "R03.b"]),
        M("and-row-logical", U, [('"and": ("and", lambda x, y: int(_e(x)) & int(_e(y))),', '"and": ("and", lambda x, y: _e(x) and _e(y)),')], ["R03.b"]),
        M("sub-row-swapped-operands", U, [('"-": ("sub", lambda x, y: _e(x) - _e(y)),', '"-": ("sub", lambda x, y: _e(y) - _e(x)),')], ["R03.a"]),
        M("mod-row-fmod", U, [('"%": ("mod", lambda x, y: _e(x) % _e(y)),', '"%": ("mod", lambda x, y: __import__("math").fmod(_e(x), _e(y))),')], ["R03.a", "R03.b"]),
        M("le-row-strict", U, [('"<=": (comp("<="), lambda x, y: _e(x) <= _e(y)),', '"<=": (comp("<="), lambda x, y: _e(x) < _e(y)),')], ["R03.a", "R03.b"]),
        M("math-name-without-instruction", U, [('    "exp",\n}', '    "exp",\n    "fabs",\n}')], ["R03.c"]),
        M("math-name-log10-as-log", U, [('    "exp",\n}', '    "exp",\n    "log10",\n}')], ["R03.c"]),
        _GUARD_CONSTPROP,
        M("constant-table-wrong-variable", T, [('    "tau": tau,', '    "tau": pi,')], ["R03.e"]),
        M("coercion-to-int", U, [("    return float(value)\n\n\ndef _c(value):", "    return int(value)\n\n\ndef _c(value):")], ["R03.f"]),
        M("fold-without-constness", G, [("        if data.is_constant:\n            data.result = IC10Operand(data.constant_value)\n            return\n\n        opcode, _ = get_unop_instruction(node.op)", "        if data.constant_value is not None:\n            data.result = IC10Operand(data.constant_value)\n            return\n\n        opcode, _ = get_unop_instruction(node.op)")], ["R03.g"]),
        M("folder-called-with-swapped-operands", CP, [("            val = func(left._ndata.constant_value, right._ndata.constant_value)\n            data.set_constant(val)", "            val = func(right._ndata.constant_value, left._ndata.constant_value)\n            data.set_constant(val)")], ["R03.h"]),
        M("folder-called-when-only-left-constant", CP, [("        if left._ndata.is_constant and right._ndata.is_constant:\n            _, func = get_binop_instruction(node.op)", "        if left._ndata.is_constant:\n            _, func = get_binop_instruction(node.op)")], ["R03.h"]),
        N("rename-lambda-parameters", U, [('"+": ("add", lambda x, y: _e(x) + _e(y)),', '"+": ("add", lambda a, b: _e(a) + _e(b)),')]),
        N("reorder-rows", U, [('        "*": ("mul", lambda x, y: _e(x) * _e(y)),\n        "/": ("div", lambda x, y: _e(x) / _e(y)),', '        "/": ("div", lambda x, y: _e(x) / _e(y)),\n        "*": ("mul", lambda x, y: _e(x) * _e(y)),')]),
        N("add-floor-to-math-names", U, [('    "exp",\n}', '    "exp",\n    "floor",\n}')]),
    ],
    "C04": [
        M("alias-accesses-not-in-lifetime", T, [("accesses = self.nodes_reading + self.nodes_writing + self.nodes_alias", "accesses = self.nodes_reading + self.nodes_writing")], ["R04.h"]),
        M("widening-stops-at-nearest-loop", U, [("            loop = par\n            if all(par.parent_of(a) for a in accesses):\n                break\n", "            loop = par\n            break\n")], ["R04.d"]),
        M("accesses-not-handed-to-the-widening", T, [("all_nodes = [get_loop_ancestor(n, accesses) for n in accesses]", "all_nodes = [get_loop_ancestor(n) for n in accesses]")], ["R04.d"]),
        N("widening-to-the-outermost-loop", U, [("            loop = par\n            if all(par.parent_of(a) for a in accesses):\n                break\n", "            loop = par\n")]),
        M("eighteen-registers", RA, [("registers = list(range(16))", "registers = list(range(18))")], ["R04.a"]),
        M("bound-test-off-by-one", RA, [("if col >= len(available_registers):", "if col > len(available_registers):")], ["R04.b"]),
        M("bound-test-does-not-raise", RA, [("                raise CompilerError(\n                    f\"Running out of registers, try to simplify your code.\"\n                )", "                col = 0")], ["R04.b"]),
        M("release-one-line-early", RA, [("            if e <= start:", "            if e <= start + 1:")], ["R04.c"]),
        M("closed-interval", T, [("range(min_line, max_line + 1)", "range(min_line, max_line)")], ["R04.c"]),
        M("no-loop-widening", T, [("all_nodes = [get_loop_ancestor(n, accesses) for n in accesses]", "all_nodes = [n for n in accesses]")], ["R04.d"]),
        M("widening-writers-only", T, [("all_nodes = [get_loop_ancestor(n, accesses) for n in accesses]", "all_nodes = [get_loop_ancestor(n, accesses) for n in self.nodes_writing]")], ["R04.d"]),
        M("widening-skips-some-accesses", T, [("all_nodes = [get_loop_ancestor(n, accesses) for n in accesses]", "all_nodes = [get_loop_ancestor(n, accesses) for n in accesses if n.lineno > 1]")], ["R04.d"]),
        N("loop-kinds-as-two-tests", U, [("        if isinstance(par, (nodes.For, nodes.While)):\n            loop = par\n            if all(par.parent_of(a)", "        if isinstance(par, nodes.For) or isinstance(par, nodes.While):\n            loop = par\n            if all(par.parent_of(a)")]),
        _MODULE_LIFETIME,
        M("callers-not-subtracted", RA, [("available_registers = list(sorted(set(registers) - parent_registers))", "available_registers = list(sorted(set(registers)))")], ["R04.f"]),
        M("blocked-set-not-transitive", RA, [("blocked_registers_by_scope[scope] = blocked_registers.union(parent_registers)", "blocked_registers_by_scope[scope] = blocked_registers")], ["R04.f"]),
        M("temporaries-not-blocked", RA, [("                True or not sym._is_intermediate", "                not sym._is_intermediate")], ["R04.f"]),
        M("functions-not-callees-of-modules", RA, [("        called_from[name].update(module_names)", "        pass")], ["R04.f"]),
        M("sorted-by-stop", RA, [("symbols_sorted = sorted(symbols, key=lambda s: s.lifetime.start)", "symbols_sorted = sorted(symbols, key=lambda s: s.lifetime.stop)")], ["R04.g"]),
        N("rename-parent-registers", RA, [("parent_registers", "inherited")], all_=True),
        N("release-test-rewritten", RA, [("            if e <= start:", "            if not (e > start):")]),
    ],
    "C05": [
        M("unused-label-test-by-substring", G, [("            if label in tokens:", "            if label in line:")], ["R05.a"]),
        M("else-label-never-defined", G, [('            data.add_else(IC10(f"{else_label}:", indent=-1))', "            pass")], ["R05.b"]),
        M("end-label-defined-twice", G, [('        data.add_end(IC10(f"{end_label}:", indent=-1))', '        data.add_end(IC10(f"{end_label}:", indent=-1))\n        data.add_end(IC10(f"{end_label}:", indent=-1))')], ["R05.b"]),
        M("while-forgets-break-label", G, [("        data.start_label = while_label\n        data.end_label = end_label\n", "        data.start_label = while_label\n")], ["R05.c"]),
        M("ra-logic-unqualified-name", CP, [('name = get_function_name(self.node).replace("_", ".")', 'name = self.node.name.replace("_", ".")')], ["R05.d"]),
        M("return-label-other-transform", G, [('label = fname.replace("_", ".") + "end"', 'label = fname.replace("_", "-") + "end"')], ["R05.d"]),
        M("end-label-suffix-differs", G, [('data.add_end(IC10(f"{label}end:"))', 'data.add_end(IC10(f"{label}.end:"))')], ["R05.d"]),
        M("counter-advances-conditionally", G, [("        self._name_counter += 1\n\n        names = [", "        if len(prefixes) > 1:\n            self._name_counter += 1\n\n        names = [")], ["R05.e"]),
        M("label-prefix-ends-in-digit", G, [('self.get_label("else", "end")', 'self.get_label("else2", "end")')], ["R05.e"]),
        M("label-map-off-by-one", G, [("label_map[label] = len(new_code)", "label_map[label] = len(new_code) + 1")], ["R05.f"]),
        N("rename-label-variables", G, [("else_label", "lbl_else")], all_=True),
    ],
    "C06": [
        M("callee-slot-shifted", G, [('"get", ["db", _RETURN_VALUE_ADDRESS - 1 - i], sym, indent=1', '"get", ["db", _RETURN_VALUE_ADDRESS - 2 - i], sym, indent=1')], ["R06.a"]),
        M("callee-pops-in-declared-order", G, [("list(reversed(node.args.args))", "list(node.args.args)")], ["R06.a"]),
        M("caller-reads-other-result-slot", G, [('data.add_end(IC10("get", ["db", _RETURN_VALUE_ADDRESS], symbol))', 'data.add_end(IC10("get", ["db", _RETURN_VALUE_ADDRESS - 1], symbol))')], ["R06.a"]),
        M("caller-arg-role-missing-under-push-pop", G, [('                if self.data.options.use_push_pop_functions:\n                    data.add(IC10("push", [d]))\n                else:\n                    data.add(IC10("put", ["db", _RETURN_VALUE_ADDRESS - 1 - i, d]))', '                data.add(IC10("put", ["db", _RETURN_VALUE_ADDRESS - 1 - i, d]))')], ["R06.a"]),
        M("ra-logic-unqualified-name", CP, [('name = get_function_name(self.node).replace("_", ".")', 'name = self.node.name.replace("_", ".")')], ["R06.b"]),
        M("fixed-slots-never-restore-ra", CP, [('                self.code.insert(\n                    end_label_pos + 2, IC10Instruction("pop", [], ra, indent=indent)\n                )', "                pass")], ["R06.c"]),
        M("restore-before-end-label", CP, [("                    end_label_pos + 2, IC10Instruction", "                    end_label_pos + 1, IC10Instruction")], ["R06.f"]),
        M("inserts-in-ascending-order", CP, [("sorted(all_inserts, key=lambda x: x[0], reverse=True)", "sorted(all_inserts, key=lambda x: x[0])")], ["R06.f"]),
        M("push-ra-before-argument-pops", CP, [('(1 + n_args, IC10Instruction("push", [ra], indent=indent))', '(1, IC10Instruction("push", [ra], indent=indent))')], ["R06.f"]),
        M("result-read-before-call", G, [('data.add_end(IC10("get", ["db", _RETURN_VALUE_ADDRESS], symbol))', 'data.add(IC10("get", ["db", _RETURN_VALUE_ADDRESS], symbol))')], ["R06.g"]),
        N("rename-end-label-pos", CP, [("end_label_pos", "end_pos")], all_=True),
        N("slot-expression-reordered", G, [('"get", ["db", _RETURN_VALUE_ADDRESS - 1 - i], sym, indent=1', '"get", ["db", _RETURN_VALUE_ADDRESS - i - 1], sym, indent=1')]),
    ],
    "C07": [
        M("regions-in-insertion-order", G, [("for fname in sorted(self.data.functions.keys()):", "for fname in self.data.functions.keys():")], ["R07.a"]),
        M("regions-sorted-descending", G, [("for fname in sorted(self.data.functions.keys()):", "for fname in sorted(self.data.functions.keys(), reverse=True):")], ["R07.a"]),
        M("end-label-unterminated-under-tail-call", G, [("if (not apply_tail_call_optimization or has_early_return) and (", "if (not apply_tail_call_optimization) and (")], ["R07.c"]),
        N("sorted-without-keys-call", G, [("for fname in sorted(self.data.functions.keys()):", "for fname in sorted(self.data.functions):")]),
        M("regions-sorted-by-length", G, [("for fname in sorted(self.data.functions.keys()):", "for fname in sorted(self.data.functions.keys(), key=lambda k: -len(k)):")], ["R07.a"]),
        M("main-region-never-emitted", G, [('            if fname == "" or func.is_called:\n                for line in func.code:', '            if fname != "" and func.is_called:\n                for line in func.code:')], ["R07.a"]),
        N("regions-from-filtered-list", G, [('        for fname in sorted(self.data.functions.keys()):\n            func = self.data.functions[fname]\n            if func.is_constexpr:\n                continue\n            if fname != "" and func.is_called:\n                func.add_ra_instructions(self.data.options)\n            if fname == "" or func.is_called:\n                for line in func.code:\n                    self.code.append(line)\n',
                                              '        emitted = [f for _, f in sorted(self.data.functions.items()) if f.is_called and not f.is_constexpr]\n        for func in emitted:\n            if func.node is not None:\n                func.add_ra_instructions(self.data.options)\n        self.code = [line for func in emitted for line in func.code]\n')]),
    ],
    "C08": [
        M("hex-spelling-for-any-size", U, [("    if value <= 10000 or value in _all_hashes or value >= 2**53:\n", "    if value <= 10000 or value in _all_hashes:\n")], ["R08.g"]),
        M("wrong-fold-constant", U, [("val = (val ^ 0x80000000) - 0x80000000", "val = (val ^ 0x80000000) - 0x8000000")], ["R08.a"]),
        M("unsigned-hash", U, [("    val = (val ^ 0x80000000) - 0x80000000\n", "    val = val & 0xFFFFFFFF\n")], ["R08.a"]),
        M("hash-of-latin1-bytes", U, [("zlib.crc32(name.encode())", 'zlib.crc32(name.encode("latin-1"))')], ["R08.a"]),
        M("little-endian-packing", T, [("        val = val << 8 | ord(char)", "        val = val | ord(char) << 8")], ["R08.b"]),
        M("reversed-string", T, [("    for char in s:\n        val = val << 8 | ord(char)", "    for char in reversed(s):\n        val = val << 8 | ord(char)")], ["R08.b"]),
        M("verbose-returns-number", T, [("    if output_mode == OutputMode.VERBOSE:\n        return string_value", "    if output_mode == OutputMode.VERBOSE:\n        return num_value")], ["R08.c"]),
        M("hash-of-lowercased-name", T, [("    val = calc_hash(name)\n", "    val = calc_hash(name.lower())\n")], ["R08.c"]),
        M("enum-value-shifted", U, [("        return enum_val.value\n", "        return enum_val.value + 1\n")], ["R08.d"]),
        M("mode-read-in-generator", G, [("        data = node._ndata\n        if isinstance(node.value, bool):", "        data = node._ndata\n        from .utils import is_compact_output\n        _c = is_compact_output()\n        if isinstance(node.value, bool):")], ["R08.e"]),
        M("hex-for-negative-values", U, [("    if value <= 10000 or value in _all_hashes or value >= 2**53:", "    if abs(value) <= 10000 or value in _all_hashes or value >= 2**53:")], ["R08.g"]),
        N("fold-by-conditional", U, [("val = (val ^ 0x80000000) - 0x80000000", "val = val - 0x100000000 if val >= 0x80000000 else val")]),
        N("packing-by-multiplication", T, [("        val = val << 8 | ord(char)", "        val = val * 256 + ord(char)")]),
    ],
    "C09": [
        M("float-carried-by-a-register-printed-raw", T, [("            expr = self.value.code_expr\n            if isinstance(expr, float):\n                # a variable that stands for a literal: spell it like any other number\n                return IC10Operand(expr).to_string()\n            return expr\n", "            return self.value.code_expr\n")], ["R09.d"]),
        M("unary-minus-one-operand", G, [("data.add_end(IC10(opcode, [0, opname], sym))", "data.add_end(IC10(opcode, [opname], sym))")], ["R09.a"]),
        M("nonexistent-opcode", G, [('data.add(IC10("seq", [index, i], t))', 'data.add(IC10("seql", [index, i], t))')], ["R09.a"]),
        M("bool-not-normalised", T, [("        elif isinstance(value, bool):\n            value = int(value)\n", "")], ["R09.b"]),
        M("version-note-too-late", G, [("if len(lines[i]) + l < 89:", "if len(lines[i]) + l < 120:")], ["R09.c"]),
        M("twelve-digits", T, [('return f"{self.value:.16g}"', 'return f"{self.value:.12g}"')], ["R09.d"]),
        M("slot-load-operands-swapped", T, [('"ls", [self._id, self._slot_index, self._slot_type], output', '"ls", [self._id, self._slot_type, self._slot_index], output')], ["R09.e"]),
        M("named-batch-store-hashes-swapped", T, [('"sbn", [self._device_hash, self._name_hash, self._logic_type, value]', '"sbn", [self._name_hash, self._device_hash, self._logic_type, value]')], ["R09.e"]),
        M("stack-store-address-and-value-swapped", T, [('return IC10Instruction("put", [self._id, self._addr, value])', 'return IC10Instruction("put", [self._id, value, self._addr])')], ["R09.e"]),
        N("bound-rewritten", G, [("if len(lines[i]) + l < 89:", "if len(lines[i]) + l <= 88:")]),
    ],
    "C10": [
        M("timeout-path-leaves-child", U, [("        process.kill()\n        process.communicate()\n        raise CompilerError(", "        raise CompilerError(")], ["R10.b"]),
        M("unbounded-wait", U, [("stdout, stderr = process.communicate(timeout=1)", "stdout, stderr = process.communicate()")], ["R10.c"]),
        M("membership-by-hasattr", C, [("if tag in CompileOptions.__dataclass_fields__:", "if hasattr(options, tag):")], ["R10.a"]),
        M("catch-all-removed", C, [("        except Exception as e:\n            if self._raise_exceptions:\n                raise e\n            import traceback", "        except KeyError as e:\n            if self._raise_exceptions:\n                raise e\n            import traceback")], ["R10.a"]),
        N("kill-then-wait", U, [("        process.kill()\n        process.communicate()\n", "        process.kill()\n        process.wait()\n")]),
    ],
    "C11": [
        M("pragmas-written-to-callers-object", C, [("        options = copy.copy(options)", "        options = options")], ["R11.b"]),
        M("new-module-level-cache", U, [("def format_int(value):\n", "_fmt_cache = {}\n\n\ndef format_int(value):\n    global _fmt_cache\n    _fmt_cache = dict(_fmt_cache)\n")], ["R11.a"]),
        M("mode-not-reset-per-compile", C, [("    set_output_mode(OutputMode.COMPACT if options.compact else OutputMode.VERBOSE)\n    return Compiler(options).compile(src)", "    if options.compact:\n        set_output_mode(OutputMode.COMPACT)\n    return Compiler(options).compile(src)")], ["R11.a"]),
        N("copy-by-replace", C, [("        options = copy.copy(options)", "        options = copy.deepcopy(options)")]),
    ],
    "C12": [
        M("exec-not-rejected", CP, [('re.search(r"\\b(open|eval|exec)\\b", node.as_string())', 're.search(r"\\b(open|eval)\\b", node.as_string())')], ["R12.a"]),
        M("registered-before-validation", CP, [("                self.check_constexpr_function(fnode)\n                scope = get_scope_name(fnode)", "                scope = get_scope_name(fnode)")], ["R12.a"]),
        M("hash-bound-to-compute-hash", U, [("from stationeers_pytrapic.utils import calc_hash as HASH", "from stationeers_pytrapic.types import compute_hash as HASH")], ["R12.c"]),
        M("constexpr-body-kept", CP, [("                fnode.body = []\n", "")], ["R12.b"]),
        M("cache-keyed-by-call-only", U, [("    if code in _eval_constexpr_cache:\n        return _eval_constexpr_cache[code]", "    if call_node.as_string() in _eval_constexpr_cache:\n        return _eval_constexpr_cache[call_node.as_string()]")], ["R12.d"]),
    ],
    "C14": [
        M("reply-outside-finally", D, [("    finally:\n        if response is not None:", "    if True:\n        if response is not None:")], ["R14.b"]),
        M("second-print-to-real-stdout", D, [('        log(f"got modules {list(modules.keys())}")', '        print("got modules", file=_stdout)')], ["R14.a"]),
        M("catch-all-narrowed", D, [("    except Exception as e:\n        import traceback\n\n        stack_trace = traceback.format_exc()\n        response = {", "    except ValueError as e:\n        import traceback\n\n        stack_trace = traceback.format_exc()\n        response = {")], ["R14.b"]),
        M("strip-before-eof-test", D, [("            line = sys.stdin.readline()\n\n            if not line:", "            line = sys.stdin.readline().strip()\n\n            if not line:")], ["R14.c"]),
    ],
    "C15": [
        M("membership-by-hasattr", C, [("if tag in CompileOptions.__dataclass_fields__:", "if hasattr(options, tag):")], ["R15.a"]),
        M("prefix-removed-by-lstrip", C, [("                    tag = tag[3:].strip()", '                    tag = tag.lstrip("no_").strip()')], ["R15.b"]),
        M("prefix-test-before-normalisation", C, [('                tag = tag.strip().replace("-", "_")\n                value = not tag.startswith("no_")', '                tag = tag.strip()\n                value = not tag.startswith("no_")\n                tag = tag.replace("-", "_")')], ["R15.b"]),
        M("hash-test-on-unstripped-line", C, [("            line = line.strip()\n            if not line.startswith(\"#\"):", "            if not line.startswith(\"#\"):")], ["R15.c"]),
        M("first-directive-wins", C, [("                if tag in CompileOptions.__dataclass_fields__:\n                    setattr(options, tag, value)", "                if tag in CompileOptions.__dataclass_fields__:\n                    setattr(options, tag, value)\n                    break")], ["R15.e"]),
    ],
    "C17": [
        M("bytes-without-minus-one", G, [("num_bytes = len(s) + max(num_lines - 1, 0)", "num_bytes = len(s) + max(num_lines, 0)")], ["R17.b"]),
        M("bytes-unclamped-for-empty-result", G, [("num_bytes = len(s) + max(num_lines - 1, 0)", "num_bytes = len(s) + num_lines - 1")], ["R17.b"]),
        N("bytes-by-counting-newlines", G, [("num_bytes = len(s) + max(num_lines - 1, 0)", 'num_bytes = len(s) + s.count("\\n")')]),
        M("lines-counted-before-version-note", G, [("        num_lines = len(s.splitlines())\n", "        num_lines = len(self.code)\n")], ["R17.a"]),
        M("register-not-counted", RA, [("            used_registers.add(reg_num)\n", "")], ["R17.c"]),
    ],
    "C18": [
        M("plus-and-slash-map-to-same-char", T, [('        .replace("+", "-")\n        .replace("/", "_")', '        .replace("+", "_")\n        .replace("/", "_")')], ["R18.b"]),
        M("padding-formula", T, [('encoded += "=" * (4 - len(encoded) % 4)', 'encoded += "=" * (3 - len(encoded) % 4)')], ["R18.c"]),
        M("decoder-skips-decompress", T, [("return json.loads(zlib.decompress(base64.b64decode(encoded)).decode())", "return json.loads(base64.b64decode(encoded).decode())")], ["R18.a"]),
    ],
    "C13": [
        M("uncalled-functions-emitted", G, [('            if fname == "" or func.is_called:\n                for line in func.code:', "            if True:\n                for line in func.code:")], ["R13.a"]),
        M("called-functions-dropped", G, [('            if fname == "" or func.is_called:\n                for line in func.code:', '            if fname == "":\n                for line in func.code:')], ["R13.a"]),
        M("constexpr-functions-emitted", G, [("            if func.is_constexpr:\n                continue\n", "")], ["R13.a"]),
        M("main-guard-true-for-libraries", CP, [('            if mod_name == "":\n                mod_name = "__main__"', '            if mod_name != "lib":\n                mod_name = "__main__"')], ["R13.b"]),
        M("dunder-name-is-builtin", U, [('return name != "__name__" and name in symbols.__dict__', "return name in symbols.__dict__")], ["R13.b"]),
        M("symbols-keyed-by-unqualified-scope", CP, [("        scope = get_scope_name(node)\n        if scope not in self.symbols:\n            self.symbols[scope] = {}\n        local_symbols = self.symbols[scope]\n        if name not in local_symbols:", "        scope = node.scope().name\n        if scope not in self.symbols:\n            self.symbols[scope] = {}\n        local_symbols = self.symbols[scope]\n        if name not in local_symbols:")], ["R13.c"]),
        _MODULE_LIFETIME,
        M("module-table-keyed-by-file-name", CP, [("            self._renamed_modules[new_name] = module", "            self._renamed_modules[name] = module")], ["R13.e"]),
        N("rename-scope-variable", CP, [("        scope = get_scope_name(node)\n        if scope not in self.symbols:\n            self.symbols[scope] = {}\n        local_symbols = self.symbols[scope]\n        local_symbols[name] = IC10Register(name)", "        scope_key = get_scope_name(node)\n        if scope_key not in self.symbols:\n            self.symbols[scope_key] = {}\n        local_symbols = self.symbols[scope_key]\n        local_symbols[name] = IC10Register(name)")]),
    ],
    "C16": [
        M("one-wrong-hash", "structures_generated.py", [("    _hash: int = 434786784", "    _hash: int = 434786785")], ["R16.a", "R16.b"]),
        M("enum-numbers-transposed-into-duplicate", "types_generated.py", [("    PressureExternal = 7", "    PressureExternal = 8")], ["R16.c"]),
        M("wrapper-emits-other-opcode", "intrinsics.py", [('return _IC10("sqrt", [a]', 'return _IC10("sqr", [a]')], ["R16.d", "R09.a"]),
    ],
}


def variants(pid):
    return CORPUS.get(pid, [])


def find(pid, name):
    for m in CORPUS.get(pid, []):
        if m["name"] == name:
            return m
    raise KeyError(name)


def apply(m, root: Path) -> bool:
    """Apply the edits of variant *m* under *root*; False if an anchor is absent."""
    f = m["file"]
    p = root / (PKG + "/" + f if not f.startswith("webapp") else f)
    if p.is_symlink():
        target = p.resolve()
        p.unlink()
        p.write_text(target.read_text(encoding="utf-8"), encoding="utf-8")
    s = p.read_text(encoding="utf-8")
    for old, new in m["edits"]:
        if old not in s:
            return False
        s = s.replace(old, new) if m.get("all") else s.replace(old, new, 1)
    p.write_text(s, encoding="utf-8")
    return True


# variants written after the round-4 repairs (kept in a file of their own: plain triple-quoted text, no escaping games)
from .corpus2 import EXTRA as _EXTRA  # noqa: E402

for _pid, _vs in _EXTRA.items():
    CORPUS.setdefault(_pid, []).extend(_vs)
