"""Corpus variants added after the round-4 repairs.  Same format as corpus.py (file, [(old, new)], expected rules); the
texts are written as plain triple-quoted strings so that the regular expressions of the repository can be quoted as they are."""
from __future__ import annotations

G, U, CP, T, RA, C = "generate_code.py", "utils.py", "compile_pass.py", "types.py", "register_assignment.py", "compiler.py"


def M(name, file, edits, expect, all_=False):
    return {"name": name, "file": file, "edits": edits, "expect": expect, "all": all_}


def N(name, file, edits, all_=False):
    return {"name": name, "file": file, "edits": edits, "neutral": True, "all": all_}


PATTERN = r"""pattern = r'"[^"]*"|(?<![\w.])({})(?![\w.])'.format(re.escape(label))"""

ALIAS_BLOCK = """                        owner = value
                        while owner.alias_of is not None:
                            owner = owner.alias_of
                        if owner is not sym_data:
                            owner.nodes_alias.extend(
                                sym_data.nodes_reading + sym_data.nodes_writing
                            )
                            sym_data.alias_of = owner
"""

TAIL_GUARD = """                if (
                    (sd.is_read != 1 or not self.data.options.inline_functions)
                    and last_op is not None
                    and last_op.op == "jal"
                    and not ndata.code["end"]
                ):
"""

EXTRA = {
    "C02": [
        M("tail-call-raises-for-other-calls", G, [(TAIL_GUARD, """                if last_op is None or last_op.op != "jal":
                    raise CompilerError("Tail call optimization can only be applied to direct function calls", last_node)
                if (sd.is_read != 1 or not self.data.options.inline_functions) and not ndata.code["end"]:
""")], ["R02.h"]),
        M("argument-count-checked-only-when-inlined", G, [("""        if len(func_node.args.args) != len(node.args):
            raise CompilerError(""", """        if self.data.options.inline_functions and len(func_node.args.args) != len(node.args):
            raise CompilerError(""")], ["R02.h"]),
        M("tail-jump-skips-the-pop-of-the-result", G, [("""                    and not ndata.code["end"]
""", "")], ["R02.i"]),
        M("str-constants-not-folded", U, [("""    if isinstance(value, str) and value.startswith('STR("'):
        value = compute_string(value[5:-2], OutputMode.NUMERIC)
        return value

""", "")], ["R02.j"]),
        M("labels-rewritten-inside-quotes-seen-from-options", G, [(PATTERN, r"""pattern = r'(?<![\w.])({})(?![\w.])'.format(re.escape(label))""")], ["R02.k"]),
        M("inlined-parameter-shares-a-reassigned-value", G, [("""                if arg_sym.is_overwritten:
                    # need to copy""", """                if False:
                    # need to copy""")], ["R02.l"]),
    ],
    "C03": [
        M("str-spelling-cut-one-short", U, [("compute_string(value[5:-2], OutputMode.NUMERIC)", "compute_string(value[4:-2], OutputMode.NUMERIC)")], ["R03.m"]),
        M("str-spelling-not-forced-numeric", U, [("compute_string(value[5:-2], OutputMode.NUMERIC)", "compute_string(value[5:-2])")], ["R03.m"]),
        M("integers-stay-exact", U, [("""        raise CompilerError(f"Cannot evaluate non-hash string constant: {value}", None)

    return float(value)""", """        raise CompilerError(f"Cannot evaluate non-hash string constant: {value}", None)

    if isinstance(value, int):
        return value
    return float(value)""")], ["R03.f"]),
    ],
    "C04": [
        M("alias-accesses-not-recorded", G, [(ALIAS_BLOCK, """                        owner = value
                        while owner.alias_of is not None:
                            owner = owner.alias_of
                        if owner is not sym_data:
                            sym_data.alias_of = owner
""")], ["R04.h"]),
        M("alias-accesses-go-to-the-intermediate-name", G, [(ALIAS_BLOCK, """                        value.nodes_alias.extend(
                            sym_data.nodes_reading + sym_data.nodes_writing
                        )
""")], ["R04.h"]),
        M("device-id-register-not-kept", G, [("""                        sym_data = self.data.get_sym_data(target)
                        value._dev_id._id.nodes_alias.extend(
                            sym_data.nodes_reading + sym_data.nodes_writing
                        )
""", "")], ["R04.i"]),
        M("inlined-result-register-gets-line-interval", T, [("""                scope = node.scope()
                if isinstance(node, nodes.FunctionDef) and any(
                    not isinstance(reader.scope(), nodes.Module)
                    for reader in self.nodes_reading
                ):
                    # the result register of a function called from another
                    # function is written whenever that one runs, not between
                    # 'def' and the line of the call
                    scope = node.parent.scope()
                if isinstance(scope, nodes.Module):""", """                if isinstance(node.scope(), nodes.Module):""")], ["R04.j"]),
        M("temporary-starts-at-its-own-line", T, [("""                self._lifetime = range(node.lineno, node.end_lineno + 1)
                return self._lifetime""", """                self._lifetime = range(self.nodes_writing[0].lineno, node.end_lineno + 1)
                return self._lifetime""")], ["R04.c"]),
        M("only-first-writer-examined", T, [("""            for node in self.nodes_writing:
                scope = node.scope()""", """            for node in self.nodes_writing[:1]:
                scope = node.scope()""")], ["R04.e"]),
        M("tail-calls-are-no-caller-edges", RA, [("""        for node in func.sym_data.nodes_reading:
            scope = get_scope_name(node)""", """        for node in func.sym_data.nodes_reading:
            if data.options.tail_call_optimization and node.parent is node.scope().body[-1]:
                continue
            scope = get_scope_name(node)""")], ["R04.f"]),
        N("caller-sets-as-a-comprehension", RA, [("""    module_names = set(data.modules.keys())
    for name in called_from:
        if name == "":
            continue
        called_from[name].update(module_names)
""", """    module_names = set(data.modules.keys())
    called_from = {name: (callers | module_names if name != "" else callers) for name, callers in called_from.items()}
""")]),
    ],
    "C05": [
        M("word-boundary-pattern", G, [(PATTERN, r"""pattern = r'"[^"]*"|\b({})\b'.format(re.escape(label))""")], ["R05.a"]),
        M("right-boundary-only-word", G, [(PATTERN, r"""pattern = r'"[^"]*"|(?<![\w.])({})\b'.format(re.escape(label))""")], ["R05.a"]),
        M("labels-rewritten-inside-quotes", G, [(PATTERN, r"""pattern = r'(?<![\w.])({})(?![\w.])'.format(re.escape(label))""")], ["R05.i"]),
        M("version-stamp-on-a-line-of-its-own", G, [("""                    lines[i] += version_string
                    break
""", """                    lines[i] += version_string
                    break
            else:
                lines.insert(0, version_string.strip())
""")], ["R05.j"]),
        N("pattern-as-fstring", G, [(PATTERN, r"""pattern = rf'"[^"]*"|(?<![\w.])({re.escape(label)})(?![\w.])'""")]),
        N("explicit-character-class", G, [(PATTERN, r"""pattern = r'"[^"]*"|(?<![A-Za-z0-9_.])({})(?![A-Za-z0-9_.])'.format(re.escape(label))""")]),
    ],
    "C06": [
        M("tail-jump-with-pending-pop", G, [("""                    and not ndata.code["end"]
""", "")], ["R06.m"]),
        M("argument-count-unchecked", G, [("""        if len(func_node.args.args) != len(node.args):
            raise CompilerError(
                f"Function {fname} expects {len(func_node.args.args)} arguments, but {len(node.args)} were given.",
                node,
            )

""", "")], ["R06.n"]),
        M("pop-ra-behind-the-pushed-value-at-early-returns", CP, [("""                pop_ra_positions = [
                    pos - 1 if pos > 0 and self.code[pos - 1].op == "push" else pos
                    for pos in exit_points
                ]""", """                pop_ra_positions = [pos for pos in exit_points]""")], ["R06.f"]),
    ],
    "C07": [
        M("pop-ra-takes-the-returned-value", CP, [("""                pop_ra_positions = [
                    pos - 1 if pos > 0 and self.code[pos - 1].op == "push" else pos
                    for pos in exit_points
                ]""", """                pop_ra_positions = [pos for pos in exit_points]""")], ["R07.j"]),
        M("while-forgets-break-label-seen-from-the-end-of-main", G, [("""        data.start_label = while_label
        data.end_label = end_label
""", """        data.start_label = while_label
""")], ["R07.i"]),
    ],
    "C08": [
        M("str-constants-not-folded-in-verbose-mode", U, [("""    if isinstance(value, str) and value.startswith('STR("'):
        value = compute_string(value[5:-2], OutputMode.NUMERIC)
        return value

""", "")], ["R08.j"]),
        M("crc-returned-unsigned", U, [("""    val = (val ^ 0x80000000) - 0x80000000
""", "")], ["R08.a"]),
        M("crc-fold-off-by-one-bit", U, [("""    val = (val ^ 0x80000000) - 0x80000000
""", """    val = val - (1 << 32) if val > (1 << 31) else val
""")], ["R08.a"]),
        N("crc-fold-by-modulo", U, [("""    val = (val ^ 0x80000000) - 0x80000000
""", """    val = (val + (1 << 31)) % (1 << 32) - (1 << 31)
""")]),
        N("crc-fold-by-an-unlisted-idiom", U, [("""    val = (val ^ 0x80000000) - 0x80000000
""", """    val = val - ((val >> 31) << 32)
""")]),
    ],
    "C09": [
        M("destination-dropped-for-bare-calls", G, [("""                elif result.output != None:
                    # instruction returns a value, so we need to assign it to a symbol
""", """                elif result.output != None and isinstance(node.parent, nodes.Expr):
                    result.output = None
                elif result.output != None:
                    # instruction returns a value, so we need to assign it to a symbol
""")], ["R09.a"]),
    ],
    "C10": [
        M("output-mode-coerced-outside-the-try", U, [("""    _output_mode = mode
""", """    _output_mode = OutputMode(mode)
""")], ["R10.a"]),
        M("end-position-passed-on-unchecked", C, [("""                        "column": e.error.offset,
""", """                        "column": e.error.offset,
                        "line_end": e.error.end_lineno,
                        "column_end": e.error.end_offset,
""")], ["R10.a"]),
        M("alias-walk-without-the-self-test", G, [("""                        if owner is not sym_data:
                            owner.nodes_alias.extend(
                                sym_data.nodes_reading + sym_data.nodes_writing
                            )
                            sym_data.alias_of = owner
""", """                        owner.nodes_alias.extend(
                            sym_data.nodes_reading + sym_data.nodes_writing
                        )
                        sym_data.alias_of = owner
""")], ["R10.e"]),
    ],
    "C11": [
        M("recursion-limit-raised-and-kept", C, [("""    def compile(self, src: str | dict):
        time("start")""", """    def compile(self, src: str | dict):
        import sys
        sys.setrecursionlimit(max(sys.getrecursionlimit(), 5000))
        time("start")""")], ["R11.a"]),
        M("prefab-numbers-registered-as-known-hashes", T, [("""def compute_string(s: str, output_mode=None) -> float:""", """def _remember(value):
    utils._all_hashes.add(value)
    return value


def compute_string(s: str, output_mode=None) -> float:""")], ["R11.a"]),
    ],
    "C12": [
        M("library-functions-at-top-level-of-the-script", U, [("""            if scope == "":
                code += funcs
            else:""", """            code += funcs + "\\n"
            if scope == "":
                pass
            else:""")], ["R12.c"]),
    ],
    "C13": [
        M("second-constant-pass-visits-dead-code", CP, [("""class CompilerPassCheckConstValueAssign(CompilerPassCheckConstValue):
    skip_unused_nodes = True
""", """class CompilerPassCheckConstValueAssign(CompilerPassCheckConstValue):
    skip_unused_nodes = False
""")], ["R13.h"]),
        M("modules-gathered-in-name-order", G, [("""        for module in self.data.modules.values():
            self._visit_node(module)
        self._visit_node(self.tree)

        for fname in sorted""", """        for name in sorted(self.data.modules):
            self._visit_node(self.data.modules[name])
        self._visit_node(self.tree)

        for fname in sorted""")], ["R13.i"]),
        M("scope-name-without-the-module", U, [("""    if sc.name:
        parents.append(sc.name)
""", "")], ["R13.e"]),
    ],
    "C15": [
        N("options-made-from-collected-directives", C, [("""                if tag in CompileOptions.__dataclass_fields__:
                    setattr(options, tag, value)
""", """                if tag in CompileOptions.__dataclass_fields__:
                    collected[tag] = value
        import dataclasses
        options = dataclasses.replace(options, **collected)
"""), ("""    main_module = src[""] if isinstance(src, dict) else src
""", """    main_module = src[""] if isinstance(src, dict) else src
    collected = {}
""")]),
    ],
}
