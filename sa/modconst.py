"""Static evaluation of module-level constant initialisers (tables built at import time).

The repository's tables may be written as dict literals inside a helper, or as
module-level constants built by ``dict([...])``, comprehensions over other
tables, ``TABLE.update({...})`` statements and the like.  This module folds such
initialisers to Python values *from the AST*, in statement order, without
importing anything.  Sub-expressions that are not constant (lambdas, calls of
repository functions) are kept as ``Opaque(node)`` so that tables of
(opcode, evaluator) pairs can still be enumerated.
"""
from __future__ import annotations

import ast


class Opaque:
    """A value that is not folded; the AST node is kept."""
    __slots__ = ("node", "env")

    def __init__(self, node, env=None):
        self.node = node
        self.env = env or {}

    def __repr__(self):
        return "<opaque %s>" % type(self.node).__name__

    def __hash__(self):
        return id(self.node)

    def __eq__(self, o):
        return isinstance(o, Opaque) and o.node is self.node


class Unfoldable(Exception):
    pass


_SAFE_CALLS = {"dict", "list", "tuple", "set", "frozenset", "sorted", "reversed", "len", "zip", "enumerate", "str", "int", "range", "min", "max"}
_SAFE_METHODS = {"items", "keys", "values", "copy", "get", "union", "lower", "upper", "replace", "split", "strip", "join", "format"}


def fold(e, env, opaque_ok=True, depth=0):
    """Python value of expression *e* under *env* (name -> value) or raise Unfoldable."""
    if depth > 40:
        raise Unfoldable()
    f = lambda x: fold(x, env, opaque_ok, depth + 1)
    if isinstance(e, ast.Constant):
        return e.value
    if isinstance(e, ast.Name):
        if e.id in env:
            return env[e.id]
        raise Unfoldable(e.id)
    if isinstance(e, (ast.Tuple, ast.List, ast.Set)):
        vals = []
        for x in e.elts:
            if isinstance(x, ast.Starred):
                vals.extend(f(x.value))
            else:
                vals.append(_or_opaque(x, env, opaque_ok, depth))
        return tuple(vals) if isinstance(e, ast.Tuple) else (list(vals) if isinstance(e, ast.List) else set(vals))
    if isinstance(e, ast.Dict):
        out = {}
        for k, v in zip(e.keys, e.values):
            if k is None:
                out.update(f(v))
            else:
                out[f(k)] = _or_opaque(v, env, opaque_ok, depth)
        return out
    if isinstance(e, ast.Subscript):
        base = f(e.value)
        if isinstance(e.slice, ast.Slice):
            lo = f(e.slice.lower) if e.slice.lower is not None else None
            hi = f(e.slice.upper) if e.slice.upper is not None else None
            return base[lo:hi]
        try:
            return base[f(e.slice)]
        except (KeyError, IndexError, TypeError):
            raise Unfoldable()
    if isinstance(e, ast.BinOp):
        l, r = f(e.left), f(e.right)
        try:
            if isinstance(e.op, ast.Add):
                return l + r
            if isinstance(e.op, ast.Sub):
                return l - r
            if isinstance(e.op, ast.Mult):
                return l * r
            if isinstance(e.op, ast.BitOr):
                return l | r
            if isinstance(e.op, (ast.LShift, ast.Pow)) and isinstance(l, int) and isinstance(r, int) and not isinstance(l, bool) and 0 <= r <= 4096 and abs(l) <= 2 ** 64:
                return l << r if isinstance(e.op, ast.LShift) else l ** r
            if isinstance(e.op, (ast.BitAnd, ast.BitXor, ast.RShift, ast.FloorDiv)) and isinstance(l, int) and isinstance(r, int) and not isinstance(l, bool):
                return {ast.BitAnd: l & r, ast.BitXor: l ^ r, ast.RShift: l >> r if 0 <= r <= 4096 else _unf(), ast.FloorDiv: l // r if r else _unf()}[type(e.op)]
            if isinstance(e.op, ast.Mod) and isinstance(l, str):
                return l % r
        except Exception:
            raise Unfoldable()
        raise Unfoldable()
    if isinstance(e, ast.JoinedStr):
        parts = []
        for v in e.values:
            if isinstance(v, ast.Constant):
                parts.append(str(v.value))
            elif isinstance(v, ast.FormattedValue) and v.format_spec is None and v.conversion == -1:
                parts.append(str(f(v.value)))
            else:
                raise Unfoldable()
        return "".join(parts)
    if isinstance(e, ast.Compare) and len(e.ops) == 1:
        l, r = f(e.left), f(e.comparators[0])
        op = e.ops[0]
        try:
            return {ast.Eq: l == r, ast.NotEq: l != r, ast.In: l in r, ast.NotIn: l not in r}.get(type(op)) if type(op) in (ast.Eq, ast.NotEq, ast.In, ast.NotIn) else _unf()
        except TypeError:
            raise Unfoldable()
    if isinstance(e, ast.IfExp):
        return f(e.body) if f(e.test) else f(e.orelse)
    if isinstance(e, (ast.DictComp, ast.ListComp, ast.SetComp, ast.GeneratorExp)):
        results = []

        def gen(i, env2):
            if i == len(e.generators):
                if isinstance(e, ast.DictComp):
                    results.append((fold(e.key, env2, opaque_ok, depth + 1), _or_opaque(e.value, env2, opaque_ok, depth)))
                else:
                    results.append(_or_opaque(e.elt, env2, opaque_ok, depth))
                return
            g = e.generators[i]
            for item in fold(g.iter, env2, opaque_ok, depth + 1):
                env3 = dict(env2)
                _bind(g.target, item, env3)
                if all(fold(c, env3, opaque_ok, depth + 1) for c in g.ifs):
                    gen(i + 1, env3)
        gen(0, dict(env))
        if isinstance(e, ast.DictComp):
            return dict(results)
        if isinstance(e, ast.SetComp):
            return set(results)
        return list(results)
    if isinstance(e, ast.Call):
        fn = e.func
        if isinstance(fn, ast.Name) and fn.id in _SAFE_CALLS and not any(isinstance(a, ast.Starred) for a in e.args):
            args = [f(a) for a in e.args]
            kw = {k.arg: f(k.value) for k in e.keywords if k.arg}
            try:
                return {"dict": dict, "list": list, "tuple": tuple, "set": set, "frozenset": frozenset, "sorted": sorted, "reversed": lambda x: list(reversed(x)),
                        "len": len, "zip": lambda *a: list(zip(*a)), "enumerate": lambda x: list(enumerate(x)), "str": str, "int": int, "range": lambda *a: list(range(*a)),
                        "min": min, "max": max}[fn.id](*args, **kw)
            except Exception:
                raise Unfoldable()
        if isinstance(fn, ast.Attribute) and fn.attr in _SAFE_METHODS:
            base = f(fn.value)
            args = [f(a) for a in e.args]
            try:
                r = getattr(base, fn.attr)(*args)
            except Exception:
                raise Unfoldable()
            if fn.attr in ("items", "keys", "values"):
                r = list(r)
            return r
        if isinstance(fn, ast.Attribute) and fn.attr == "maketrans" and isinstance(fn.value, ast.Name) and fn.value.id in ("str", "bytes"):
            args = [f(a) for a in e.args]
            try:
                return str.maketrans(*args)
            except Exception:
                raise Unfoldable()
        raise Unfoldable()
    raise Unfoldable()


def _unf():
    raise Unfoldable()


def _bind(target, value, env):
    if isinstance(target, ast.Name):
        env[target.id] = value
    elif isinstance(target, (ast.Tuple, ast.List)):
        vals = list(value)
        if len(vals) != len(target.elts):
            raise Unfoldable()
        for t, v in zip(target.elts, vals):
            _bind(t, v, env)
    else:
        raise Unfoldable()


def _or_opaque(x, env, opaque_ok, depth):
    try:
        return fold(x, env, opaque_ok, depth + 1)
    except Unfoldable:
        if opaque_ok:
            return Opaque(x, env)
        raise


_CACHE = {}


def module_constants(mod):
    """name -> folded value for the module-level assignments of *mod* that are constant (in statement order;
    NAME.update(...) / NAME[k] = v / NAME.add(...) statements are applied)."""
    key = id(mod)
    if key in _CACHE and _CACHE[key][0] is mod:
        return _CACHE[key][1]
    env = {}
    rebound = set()
    for st in mod.tree.body:
        try:
            if isinstance(st, ast.Assign) and len(st.targets) == 1 and isinstance(st.targets[0], ast.Name):
                name = st.targets[0].id
                if name in env or name in rebound:
                    rebound.add(name)
                    env.pop(name, None)
                    continue
                env[name] = fold(st.value, env)
            elif isinstance(st, ast.Assign) and len(st.targets) == 1 and isinstance(st.targets[0], (ast.Tuple, ast.List)) and isinstance(st.value, (ast.Tuple, ast.List)) \
                    and len(st.targets[0].elts) == len(st.value.elts) and all(isinstance(x, ast.Name) for x in st.targets[0].elts):
                # A, B = 'x', 'y'
                for tn, tv in zip(st.targets[0].elts, st.value.elts):
                    if tn.id in env or tn.id in rebound:
                        rebound.add(tn.id)
                        env.pop(tn.id, None)
                        continue
                    try:
                        env[tn.id] = fold(tv, env)
                    except Unfoldable:
                        pass
            elif isinstance(st, ast.AnnAssign) and isinstance(st.target, ast.Name) and st.value is not None:
                if st.target.id not in rebound:
                    env[st.target.id] = fold(st.value, env)
            elif isinstance(st, ast.Expr) and isinstance(st.value, ast.Call) and isinstance(st.value.func, ast.Attribute) and isinstance(st.value.func.value, ast.Name) \
                    and st.value.func.value.id in env and st.value.func.attr in ("update", "add", "append", "extend", "setdefault"):
                name = st.value.func.value.id
                args = [fold(a, env) for a in st.value.args]
                getattr(env[name], st.value.func.attr)(*args)
            elif isinstance(st, ast.Assign) and len(st.targets) == 1 and isinstance(st.targets[0], ast.Subscript) and isinstance(st.targets[0].value, ast.Name) \
                    and st.targets[0].value.id in env:
                env[st.targets[0].value.id][fold(st.targets[0].slice, env)] = _or_opaque(st.value, env, True, 0)
        except Unfoldable:
            if isinstance(st, ast.Assign) and isinstance(st.targets[0], ast.Name):
                env.pop(st.targets[0].id, None)
            elif isinstance(st, ast.Expr):
                # an update we could not fold makes the table unknown
                env.pop(st.value.func.value.id, None)
        except Exception:
            pass
    _CACHE[key] = (mod, env)
    return env
