"""E5 Tables: the repository's operator/condition tables as data."""
from __future__ import annotations

import ast
from .model import Repo, AnalysisError, norm
from .consteval import FnEval, TOP, ModEval, DictLit


def _return_dict(fn):
    """The dict literal a table helper returns (possibly via .get / [..])."""
    for st in ast.walk(fn):
        if isinstance(st, ast.Return) and st.value is not None:
            for n in ast.walk(st.value):
                if isinstance(n, ast.Dict):
                    return st, n
    return None, None


class Row:
    def __init__(self, key, value_node, values, table, index):
        self.key = key
        self.node = value_node
        self.values = values  # evaluated value set of the row value
        self.table = table
        self.index = index


def helper_rows(repo: Repo, module: str, fname: str):
    """Rows of a helper of the form ``return {k: v, ...}[p]`` / ``.get(p, d)``.
    Returns (rows, how, default_values)."""
    m = repo.mod(module)
    fn = m.func(fname)
    ret, d = _return_dict(fn)
    if d is None:
        raise AnalysisError(f"table helper {module}.{fname}: no dict literal returned (shape not recognised)")
    fe = FnEval(repo, m, fn)
    ids = fe.node_ids(ret)
    nid = ids[0] if ids else 0
    rows = []
    for i, (k, v) in enumerate(zip(d.keys, d.values)):
        if k is None:
            raise AnalysisError(f"table {module}.{fname}: ** expansion in table literal")
        kv = fe.eval(k, nid)
        if kv is TOP or len(kv) != 1:
            raise AnalysisError(f"table {module}.{fname}: key {norm(k)} is not a constant")
        rows.append(Row(next(iter(kv)), v, fe.eval(v, nid), fname, i))
    # how is the table indexed
    how, default = "subscript", None
    p = getattr(d, "parent", None)
    if isinstance(p, ast.Attribute) and p.attr == "get":
        how = "get"
        call = p.parent
        default = fe.eval(call.args[1], nid) if len(call.args) > 1 else frozenset([None])
    keys = [r.key for r in rows]
    if len(set(keys)) != len(keys):
        dup = sorted({k for k in keys if keys.count(k) > 1}, key=repr)
        raise AnalysisError(f"table {module}.{fname}: duplicate keys {dup} (later rows shadow earlier ones)")
    return rows, how, default


def module_dict(repo: Repo, module: str, name: str):
    m = repo.mod(module)
    if name not in m.assigns:
        raise AnalysisError(f"anchor vanished: {module}.{name}")
    st = m.assigns[name][-1]
    v = st.value
    return m, st, v


def const_dict(repo, module, name):
    m, st, v = module_dict(repo, module, name)
    if not isinstance(v, ast.Dict):
        raise AnalysisError(f"{module}.{name} is not a dict literal")
    out = {}
    me = ModEval(repo, m)
    for k, val in zip(v.keys, v.values):
        kv = me.eval(k)
        vv = me.eval(val)
        if kv is TOP or len(kv) != 1:
            raise AnalysisError(f"{module}.{name}: key not constant")
        out[next(iter(kv))] = (val, vv)
    return out


def const_set(repo, module, name):
    m, st, v = module_dict(repo, module, name)
    if isinstance(v, ast.Call) and isinstance(v.func, ast.Name) and v.func.id in ("set", "frozenset") and v.args:
        v = v.args[0]
    if not isinstance(v, (ast.Set, ast.List, ast.Tuple)):
        raise AnalysisError(f"{module}.{name} is not a set/list literal")
    out = []
    for e in v.elts:
        if not isinstance(e, ast.Constant):
            raise AnalysisError(f"{module}.{name}: non-constant element")
        out.append(e.value)
    return out
