"""E5 Tables: the repository's operator/condition tables as data."""
from __future__ import annotations

import ast
from .model import Repo, AnalysisError, norm
from .consteval import FnEval, TOP, ModEval, DictLit


def _return_dict(fn):
    """The dict literal a table helper returns (possibly via .get / [..])."""
    for st in ast.walk(fn):
        if isinstance(st, ast.Return) and st.value is not None:
            for n in ast.walk(st.value):
                if isinstance(n, ast.Dict):
                    return st, n
    return None, None


class Row:
    def __init__(self, key, value_node, values, table, index):
        self.key = key
        self.node = value_node
        self.values = values  # evaluated value set of the row value
        self.table = table
        self.index = index


def helper_rows(repo: Repo, module: str, fname: str):
    """Rows of a table helper.  Recognised: ``return {k: v, ...}[p]`` / ``.get(p, d)`` with the literal in the function, and
    helpers that index module-level tables (possibly derived: ``return SUFFIX[OPPOSITE[p]]``): then the rows are obtained by
    evaluating the returned expression for every candidate key."""
    m = repo.mod(module)
    fn = m.func(fname)
    ret, d = _return_dict(fn)
    if d is not None:
        return _literal_rows(repo, module, fname)
    from .consteval import PyDict
    rets = [st for st in ast.walk(fn) if isinstance(st, ast.Return) and st.value is not None]
    if len(rets) != 1 or not fn.args.args:
        raise AnalysisError(f"table helper {module}.{fname}: no dict literal returned and not a single-return look-up (shape not recognised)")
    R = rets[0].value
    param = fn.args.args[0].arg
    fe = FnEval(repo, m, fn)
    nid = (fe.node_ids(rets[0]) or [0])[0]
    # candidate keys: keys of every module-level table mentioned in the returned expression
    cand = []
    for nme in ast.walk(R):
        if isinstance(nme, ast.Name) and nme.id != param:
            v = fe.eval(nme, nid)
            if v is not TOP:
                for x in v:
                    if isinstance(x, PyDict):
                        for k in x.keys():
                            if k not in cand:
                                cand.append(k)
    if not cand:
        raise AnalysisError(f"table helper {module}.{fname}: returned expression {norm(R)[:60]} does not index a known table")
    how, default = "subscript", None
    if isinstance(R, ast.Call) and isinstance(R.func, ast.Attribute) and R.func.attr == "get":
        how = "get"
        default = fe.eval(R.args[1], nid) if len(R.args) > 1 else frozenset([None])
    rows = []
    for i, k in enumerate(cand):
        fe2 = FnEval(repo, m, fn, {param: frozenset([k])})
        vals = fe2.eval(R, nid)
        if vals is TOP:
            raise AnalysisError(f"table helper {module}.{fname}: value for key {k!r} cannot be resolved")
        if how == "get" and default is not None and vals == default:
            continue
        if not vals:
            continue  # not a key of this table
        rows.append(Row(k, R, vals, fname, i))
    return rows, how, default


def _literal_rows(repo: Repo, module: str, fname: str):
    """Rows of a helper of the form ``return {k: v, ...}[p]`` / ``.get(p, d)``.
    Returns (rows, how, default_values)."""
    m = repo.mod(module)
    fn = m.func(fname)
    ret, d = _return_dict(fn)
    if d is None:
        raise AnalysisError(f"table helper {module}.{fname}: no dict literal returned (shape not recognised)")
    fe = FnEval(repo, m, fn)
    ids = fe.node_ids(ret)
    nid = ids[0] if ids else 0
    rows = []
    for i, (k, v) in enumerate(zip(d.keys, d.values)):
        if k is None:
            raise AnalysisError(f"table {module}.{fname}: ** expansion in table literal")
        kv = fe.eval(k, nid)
        if kv is TOP or len(kv) != 1:
            raise AnalysisError(f"table {module}.{fname}: key {norm(k)} is not a constant")
        rows.append(Row(next(iter(kv)), v, fe.eval(v, nid), fname, i))
    # how is the table indexed
    how, default = "subscript", None
    p = getattr(d, "parent", None)
    if isinstance(p, ast.Attribute) and p.attr == "get":
        how = "get"
        call = p.parent
        default = fe.eval(call.args[1], nid) if len(call.args) > 1 else frozenset([None])
    keys = [r.key for r in rows]
    if len(set(keys)) != len(keys):
        dup = sorted({k for k in keys if keys.count(k) > 1}, key=repr)
        raise AnalysisError(f"table {module}.{fname}: duplicate keys {dup} (later rows shadow earlier ones)")
    return rows, how, default


def module_dict(repo: Repo, module: str, name: str):
    m = repo.mod(module)
    if name not in m.assigns:
        raise AnalysisError(f"anchor vanished: {module}.{name}")
    st = m.assigns[name][-1]
    v = st.value
    return m, st, v


def const_dict(repo, module, name):
    m, st, v = module_dict(repo, module, name)
    if not isinstance(v, ast.Dict):
        raise AnalysisError(f"{module}.{name} is not a dict literal")
    out = {}
    me = ModEval(repo, m)
    for k, val in zip(v.keys, v.values):
        kv = me.eval(k)
        vv = me.eval(val)
        if kv is TOP or len(kv) != 1:
            raise AnalysisError(f"{module}.{name}: key not constant")
        out[next(iter(kv))] = (val, vv)
    return out


def const_set(repo, module, name):
    m, st, v = module_dict(repo, module, name)
    if isinstance(v, ast.Call) and isinstance(v.func, ast.Name) and v.func.id in ("set", "frozenset") and v.args:
        v = v.args[0]
    if not isinstance(v, (ast.Set, ast.List, ast.Tuple)):
        raise AnalysisError(f"{module}.{name} is not a set/list literal")
    out = []
    for e in v.elts:
        if not isinstance(e, ast.Constant):
            raise AnalysisError(f"{module}.{name}: non-constant element")
        out.append(e.value)
    return out
