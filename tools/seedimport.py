#!/venv/bin/python
"""Import the output of one seeding round into /verif/seeded and /verif/neutral.

  seedimport.py <round-dir-name> <round-number> [Cxx ...]

/tmp/<round>/Cxx/out/mutN.diff + demoN.py + metaN.json  ->  seeded/Cxx-<k>/{patch.diff, demo.py, meta.json}
/tmp/<round>/Cxx/out/refN.diff + refN.json              ->  neutral/Cxx-ref<k>/{patch.diff, meta.json}
k continues after the highest number already present.  Nothing is verified here: run tools/reverify.py on the new ids, then
tools/seedmatrix.py --update.
"""
import json
import re
import shutil
import sys
from pathlib import Path

VERIF = Path(__file__).resolve().parent.parent


def next_index(base: Path, prefix: str):
    k = 0
    for d in base.glob(prefix + "*"):
        m = re.fullmatch(re.escape(prefix) + r"(\d+)", d.name)
        if m:
            k = max(k, int(m.group(1)))
    return k + 1


def main(argv):
    rnd, number = argv[0], int(argv[1])
    want = argv[2:]
    new = []
    for wt in sorted(Path("/tmp", rnd).glob("C[0-9][0-9]")):
        pid = wt.name
        if want and pid not in want:
            continue
        out = wt / "out"
        for mut in sorted(out.glob("mut*.diff")):
            n = mut.stem[3:]
            demo, meta = out / f"demo{n}.py", out / f"meta{n}.json"
            if not demo.is_file() or not mut.read_text().strip():
                print(f"{pid} mut{n}: incomplete, skipped")
                continue
            k = next_index(VERIF / "seeded", pid + "-")
            d = VERIF / "seeded" / f"{pid}-{k}"
            d.mkdir(parents=True)
            shutil.copy(mut, d / "patch.diff")
            shutil.copy(demo, d / "demo.py")
            try:
                m = json.loads(meta.read_text())
            except Exception:
                m = {}
            m.update({"property": pid, "round": number,
                      "origin": f"written by a fresh sub-agent (round {number}) that saw only the property text, a list of one-line descriptions of the earlier "
                                f"changes for this property, and its own scratch worktree"})
            (d / "meta.json").write_text(json.dumps(m, indent=1) + "\n")
            new.append(d.name)
        for ref in sorted(out.glob("ref*.diff")):
            n = ref.stem[3:]
            if not ref.read_text().strip():
                continue
            k = next_index(VERIF / "neutral", pid + "-ref")
            d = VERIF / "neutral" / f"{pid}-ref{k}"
            d.mkdir(parents=True)
            shutil.copy(ref, d / "patch.diff")
            try:
                m = json.loads((out / f"ref{n}.json").read_text())
            except Exception:
                m = {}
            m.update({"property": pid, "round": number, "kind": "behaviour-preserving refactoring",
                      "origin": f"written by a fresh sub-agent (round {number}) that saw only the property text and its own scratch worktree"})
            (d / "meta.json").write_text(json.dumps(m, indent=1) + "\n")
            new.append(d.name)
    print(" ".join(new))


if __name__ == "__main__":
    main(sys.argv[1:])
