#!/venv/bin/python
"""Apply one stored patch to a scratch copy and run some checks on it, printing the NEW findings with their messages.

    tools/trypatch.py seeded/C05-9 [C05 C06 ...]     (default: all 18)
    tools/trypatch.py --keep neutral/C02-ref5 C02    (keeps the scratch copy and prints its path)
"""
import os
import shutil
import subprocess
import sys
from pathlib import Path

VERIF = Path(__file__).resolve().parent.parent
sys.path.insert(0, str(VERIF))
os.chdir(VERIF)
sys.dont_write_bytecode = True
REPO = os.environ.get("VERIF_REPO", "/repo")


def main():
    args = [a for a in sys.argv[1:] if a != "--keep"]
    keep = "--keep" in sys.argv
    sd = VERIF / args[0]
    pids = args[1:] or [f"C{i:02d}" for i in range(1, 19)]
    from sa.selfval import make_copy, BIG
    from sa.runner import analyse
    from sa.model import AnalysisError
    d = make_copy(REPO, touched=BIG, link_big=False)
    try:
        p = subprocess.run(["git", "apply", "--unsafe-paths", "-p1", "--directory", d, str(sd / "patch.diff")], cwd=d, stdout=subprocess.PIPE, stderr=subprocess.STDOUT, text=True)
        if p.returncode != 0:
            print("patch does not apply:", p.stdout[-300:])
            return
        for pid in pids:
            base = analyse(pid, REPO, "quick", 0, quiet=True)
            bk = {(f["rule"], f["key"]) for f in base.findings}
            try:
                chk = analyse(pid, d, "quick", 0, quiet=True)
            except AnalysisError as e:
                print(f"{pid}: ANALYSIS-ERROR {e}")
                continue
            new = [f for f in chk.findings if (f["rule"], f["key"]) not in bk]
            for f in new:
                print(f"{pid}: NEW {f['rule']} {f['key']}\n      {f['msg'][:400]}\n      at {f['where']}")
            if chk.anchor_error:
                print(f"{pid}: anchor error: {chk.anchor_error[:300]}")
            if not new and not chk.anchor_error:
                print(f"{pid}: silent")
        if keep:
            print("scratch copy kept:", d)
    finally:
        if not keep:
            shutil.rmtree(d, ignore_errors=True)


main()
