#!/venv/bin/python
"""Regenerates the machine-derived tables of DESIGN.md (between the markers
<!-- BEGIN:<name> --> and <!-- END:<name> -->) from the evidence files and
from seeded/*/meta.json."""
import json
import re
import sys
from pathlib import Path

V = Path(__file__).resolve().parent.parent
sys.path.insert(0, str(V))


def rules_table():
    out = ["| property | rule | what the rule requires | instances on the current tree |", "|---|---|---|---|"]
    for i in range(1, 19):
        pid = f"C{i:02d}"
        ev = json.loads((V / "evidence" / f"{pid}.json").read_text())
        cov = ev["coverage"]
        expl = cov["explanation"].split("Rules applied: ", 1)[1]
        per = cov["instances_per_rule"]
        parts = re.split(r"; (?=R\d\d\.[a-z]: )", expl)
        for p in parts:
            rid, text = p.split(": ", 1)
            out.append(f"| {pid} | {rid} | {text.strip()} | {per.get(rid, 0)} |")
    return "\n".join(out)


def seeded_table():
    out = ["| seeded change | breaks | what it does (sub-agent's words) | needs to manifest | caught by (property: rules) |", "|---|---|---|---|---|"]
    tot = own = 0
    for sd in sorted((V / "seeded").iterdir()):
        mf = sd / "meta.json"
        if not mf.is_file():
            continue
        m = json.loads(mf.read_text())
        det = m.get("detected_by", {})
        tot += 1
        own += m["property"] in det
        caught = "; ".join(f"**{p}**: {', '.join(r)}" if p == m["property"] else f"{p}: {', '.join(r)}" for p, r in sorted(det.items())) or "— (not caught)"
        if m.get("analysis_broken_for"):
            caught += f" (analysis-broken, exit 2: {', '.join(m['analysis_broken_for'])})"
        what = (m.get("title") or m.get("what_breaks") or "").replace("|", "/").replace("\n", " ")[:150]
        need = (m.get("needs_to_manifest") or "").replace("|", "/").replace("\n", " ")[:140]
        out.append(f"| {sd.name} | {m['property']} | {what} | {need} | {caught} |")
    out.append("")
    out.append(f"{own} of {tot} seeded changes are reported by the check of the property they were written against (exit 1, VIOLATION naming the construct).")
    return "\n".join(out)


def neutral_table():
    out = ["| refactoring | written against | what was changed (sub-agent's words) | checks that stay silent | false alarms | lost anchors (exit 2) |", "|---|---|---|---|---|---|"]
    tot = clean = 0
    for sd in sorted((V / "neutral").iterdir()):
        mf = sd / "meta.json"
        if not mf.is_file():
            continue
        m = json.loads(mf.read_text())
        tot += 1
        fa, ab = m.get("false_alarms") or {}, m.get("analysis_broken") or {}
        clean += not fa and not ab
        what = (m.get("what_changed") or "").replace("|", "/").replace("\n", " ")[:200]
        out.append(f"| {sd.name} | {m['property']} | {what} | {len(m.get('silent', []))}/18 | {'; '.join(f'{k}: {len(v)}' for k, v in fa.items()) or '—'} | {', '.join(ab) or '—'} |")
    out.append("")
    out.append(f"{clean} of {tot} behaviour-preserving refactorings leave all 18 checks silent (exit 0, no new finding).")
    return "\n".join(out)


def findings_table():
    d = json.loads((V / "known_findings.json").read_text())["findings"]
    out = ["| status | property | rule | construct | what fails |", "|---|---|---|---|---|"]
    for f in d:
        out.append(f"| {f['status']} | {f['property']} | {f['rule']} | `{f['key'][:90]}` | {f['what'][:260].replace('|', '/')} |")
    return "\n".join(out)


def main():
    p = V / "DESIGN.md"
    s = p.read_text()
    for name, fn in (("rules", rules_table), ("seeded", seeded_table), ("findings", findings_table), ("neutral", neutral_table)):
        b, e = f"<!-- BEGIN:{name} -->", f"<!-- END:{name} -->"
        if b in s and e in s:
            s = s[:s.index(b) + len(b)] + "\n" + fn() + "\n" + s[s.index(e):]
    p.write_text(s)


if __name__ == "__main__":
    main()
