#!/venv/bin/python
"""Detection matrix: every seeded change x every property's check (static, in-process).

    tools/seedmatrix.py [--update]      --update writes detected_by into seeded/*/meta.json

For each seeded change a scratch copy of the analysed sources is made under
/tmp, the patch applied, all 18 checks run against it and compared with the
findings on the unchanged tree.  Only NEW findings count as detection.
"""
import json
import os
import shutil
import subprocess
import sys
from concurrent.futures import ProcessPoolExecutor
from pathlib import Path

VERIF = Path(__file__).resolve().parent.parent
sys.path.insert(0, str(VERIF))
os.chdir(VERIF)
sys.dont_write_bytecode = True
PIDS = [f"C{i:02d}" for i in range(1, 19)]
REPO = os.environ.get("VERIF_REPO", "/repo")


def findings(pid, root):
    from sa.runner import analyse
    from sa.model import AnalysisError
    try:
        chk = analyse(pid, root, "quick", 0, quiet=True)
        return sorted({(f["rule"], f["key"]) for f in chk.findings}), chk.anchor_error
    except AnalysisError as e:
        return [], str(e)


def job(name, sub="seeded"):
    from sa.selfval import make_copy, BIG
    sd = VERIF / sub / name
    d = make_copy(REPO, touched=BIG, link_big=False)
    try:
        p = subprocess.run(["git", "apply", "--unsafe-paths", "-p1", "--directory", d, str(sd / "patch.diff")], cwd=d, stdout=subprocess.PIPE, stderr=subprocess.STDOUT, text=True)
        if p.returncode != 0:
            p = subprocess.run(["patch", "-p1", "-s", "-d", d, "-i", str(sd / "patch.diff")], stdout=subprocess.PIPE, stderr=subprocess.STDOUT, text=True)
            if p.returncode != 0:
                return name, None, "patch does not apply: " + p.stdout[-200:]
        out = {}
        for pid in PIDS:
            out[pid] = findings(pid, d)
        return name, out, None
    finally:
        shutil.rmtree(d, ignore_errors=True)


def job_neutral(name):
    return job(name, "neutral")


def main():
    update = "--update" in sys.argv
    names = sorted(p.name for p in (VERIF / "seeded").iterdir() if (p / "meta.json").is_file())
    if "--neutral-only" in sys.argv:
        names = []
    only_round = next((int(a.split("=")[1]) for a in sys.argv if a.startswith("--round=")), None)

    def in_round(sub, n):
        return only_round is None or json.loads((VERIF / sub / n / "meta.json").read_text()).get("round") == only_round
    names = [n for n in names if in_round("seeded", n)]
    base = {pid: findings(pid, REPO) for pid in PIDS}
    with ProcessPoolExecutor(max_workers=14) as ex:
        results = list(ex.map(job, names))
    caught_own = caught_any = 0
    for name, out, err in results:
        meta = json.loads((VERIF / "seeded" / name / "meta.json").read_text())
        own = meta["property"]
        if out is None:
            print(f"{name}: {err}")
            continue
        det, broken = {}, []
        for pid in PIDS:
            keys, aerr = out[pid]
            new = [k for k in keys if k not in base[pid][0]]
            if new:
                det[pid] = sorted({k[0] for k in new})
            if aerr and not new:
                broken.append(pid)
        caught_own += own in det
        caught_any += bool(det)
        print(f"{name}: own={'YES ' + ','.join(det[own]) if own in det else 'no'}  others={ {p: r for p, r in det.items() if p != own} }  analysis-broken={broken}")
        if update:
            meta["detected_by"] = det
            meta["analysis_broken_for"] = broken
            (VERIF / "seeded" / name / "meta.json").write_text(json.dumps(meta, indent=1))
    print(f"caught by the property's own check: {caught_own}/{len(results)}; by any check: {caught_any}/{len(results)}")
    # behaviour-preserving refactorings: every check must stay silent (no new finding, no lost anchor)
    nd = VERIF / "neutral"
    if nd.is_dir():
        nnames = sorted(p.name for p in nd.iterdir() if (p / "meta.json").is_file())
        nnames = [n for n in nnames if in_round("neutral", n)]
        with ProcessPoolExecutor(max_workers=14) as ex:
            nres = list(ex.map(job_neutral, nnames))
        n_alarm = n_broken = 0
        for name, out, err in nres:
            meta = json.loads((nd / name / "meta.json").read_text())
            if out is None:
                print(f"{name}: {err}")
                continue
            alarms, broken, silent = {}, {}, []
            for pid in PIDS:
                keys, aerr = out[pid]
                new = [k for k in keys if k not in base[pid][0]]
                if new:
                    alarms[pid] = [f"{k[0]} {k[1]}"[:110] for k in new[:3]]
                elif aerr:
                    broken[pid] = aerr[:110]
                else:
                    silent.append(pid)
            n_alarm += bool(alarms)
            n_broken += bool(broken)
            print(f"{name}: FALSE-ALARMS={alarms if alarms else '-'}  analysis-broken={broken if broken else '-'}")
            if update:
                meta["silent"] = silent
                meta["false_alarms"] = alarms
                meta["analysis_broken"] = broken
                (nd / name / "meta.json").write_text(json.dumps(meta, indent=1))
        print(f"refactorings with a false alarm: {n_alarm}/{len(nres)}; with a lost anchor (exit 2): {n_broken}/{len(nres)}")


if __name__ == "__main__":
    main()
