#!/venv/bin/python
"""Re-verify every committed seeded change and neutral refactoring against /repo HEAD and record the result in meta.json.

  reverify.py [<id> ...]        ids like C13-4 or C07-ref1; default: everything

seeded/<id>:  demo on the clean tree exits 0, patch applies, unchanged test suite passes, demo on the patched tree exits != 0
neutral/<id>: patch applies, unchanged test suite passes
Scratch worktrees live under /tmp and are removed.  Nothing is run against /verif's checks here (see seedmatrix.py).
"""
import json
import os
import shutil
import subprocess
import sys
import tempfile
from concurrent.futures import ThreadPoolExecutor
from pathlib import Path

VERIF = Path(__file__).resolve().parent.parent
REPO = "/repo"
PY = "/venv/bin/python"


def sh(cmd, cwd=None, env=None, timeout=2400):
    e = dict(os.environ)
    e.update(env or {})
    try:
        p = subprocess.run(cmd, cwd=cwd, env=e, stdout=subprocess.PIPE, stderr=subprocess.STDOUT, text=True, timeout=timeout)
        return p.returncode, p.stdout
    except subprocess.TimeoutExpired as t:
        return 124, (t.stdout or b"").decode("utf-8", "replace") if isinstance(t.stdout, bytes) else (t.stdout or "")


def one(d: Path):
    kind = d.parent.name
    head = sh(["git", "-C", REPO, "rev-parse", "--short", "HEAD"])[1].strip()
    res = {"repo_head": head}
    wt = tempfile.mkdtemp(prefix=f"rv_{d.name}_", dir="/tmp")
    os.rmdir(wt)
    try:
        rc, out = sh(["git", "-C", REPO, "worktree", "add", "-q", "--detach", wt, "HEAD"])
        if rc:
            res["error"] = out[-300:]
            return d, res
        shutil.copy(f"{REPO}/src/stationeers_pytrapic/_version.py", f"{wt}/src/stationeers_pytrapic/_version.py")
        env = {"PYTHONPATH": f"{wt}/src", "PYTRAPIC_ROOT": wt, "PYTHONDONTWRITEBYTECODE": "1"}
        demo = d / "demo.py"
        if kind == "seeded":
            rc, out = sh([PY, str(demo)], cwd="/tmp", env=env, timeout=900)
            res["demo_on_clean_tree_exit"] = rc
            if rc:
                res["demo_on_clean_tree_tail"] = out.strip()[-300:]
        rc, out = sh(["git", "-C", wt, "apply", str(d / "patch.diff")])
        res["patch_applies"] = rc == 0
        if rc:
            res["apply_out"] = out[-300:]
            return d, res
        rc, out = sh([PY, str(VERIF / "tools/pytest_relaxed.py"), wt], cwd="/tmp", env=env)
        res["test_suite_with_patch"] = "passed" if rc == 0 else f"FAILED (exit {rc})"
        res["test_suite_tail"] = out.strip().splitlines()[-1][-200:] if out.strip() else ""
        if kind == "seeded":
            rc, out = sh([PY, str(demo)], cwd="/tmp", env=env, timeout=900)
            res["demo_with_patch_exit"] = rc
            res["demo_with_patch_tail"] = out.strip()[-300:]
    finally:
        sh(["git", "-C", REPO, "worktree", "remove", "--force", wt])
        shutil.rmtree(wt, ignore_errors=True)
    return d, res


def verdict(kind, r):
    if not r.get("patch_applies"):
        return "PATCH-DOES-NOT-APPLY"
    if r.get("test_suite_with_patch") != "passed":
        return "TESTS-FAIL"
    if kind == "seeded":
        if r.get("demo_on_clean_tree_exit") != 0:
            return "DEMO-FAILS-ON-CLEAN-TREE"
        if r.get("demo_with_patch_exit") in (0, None):
            return "DEMO-DOES-NOT-SHOW-THE-BREAK"
    return "ok"


def main(argv):
    dirs = []
    for kind in ("seeded", "neutral"):
        for d in sorted((VERIF / kind).iterdir()):
            if d.is_dir() and (d / "patch.diff").is_file() and (not argv or d.name in argv):
                dirs.append(d)
    with ThreadPoolExecutor(max_workers=int(os.environ.get("SEED_JOBS", "5"))) as ex:
        for d, r in ex.map(one, dirs):
            kind = d.parent.name
            v = verdict(kind, r)
            mf = d / "meta.json"
            meta = json.loads(mf.read_text())
            vb = {"worktree": "scratch git worktree of /repo HEAD under /tmp (removed afterwards)",
                  "test_suite_note": "unchanged suite through tools/pytest_relaxed.py (only the 1 s constexpr child time-out is stretched)"}
            vb.update(r)
            vb["verdict"] = v
            meta["verified_by_me"] = vb
            mf.write_text(json.dumps(meta, indent=1) + "\n")
            print(f"{d.parent.name}/{d.name}: {v}  {r.get('test_suite_tail', '')[:80]}", flush=True)
    sh(["git", "-C", REPO, "worktree", "prune"])


if __name__ == "__main__":
    main(sys.argv[1:])
