#!/bin/sh
# run every check (tier $1, default quick) in parallel without touching the evidence files; print one line per property
tier=${1:-quick}
cd "$(dirname "$0")/.."
for i in 01 02 03 04 05 06 07 08 09 10 11 12 13 14 15 16 17 18; do
  ( out=$(./check C$i --tier $tier --no-evidence 2>&1 | grep -v condarc); rc=$?; echo "C$i $(echo "$out" | grep -c '^VIOLATION') viol; $(echo "$out" | grep -E '^\[C|ANALYSIS-ERROR' | tail -2 | cut -c1-260 | tr '\n' ' ')" ) &
done
wait
