"""Runs the repository's unchanged test suite in-process with the 1 s constexpr
child time-out stretched (the sandbox is heavily loaded while seeds are being
verified; the time-out is the only thing changed).  Usage:
    PYTHONPATH=<wt>/src python pytest_relaxed.py <wt> [pytest args]"""
import subprocess
import sys

_orig = subprocess.Popen.communicate


def communicate(self, input=None, timeout=None):
    if timeout is not None and timeout <= 2:
        timeout = 120
    return _orig(self, input=input, timeout=timeout)


subprocess.Popen.communicate = communicate
import pytest  # noqa: E402

wt = sys.argv[1]
sys.exit(pytest.main(["-q", "-p", "no:cacheprovider", "--rootdir", wt, wt + "/test"] + sys.argv[2:]))
