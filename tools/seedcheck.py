#!/venv/bin/python
"""Verify seeded changes and run the checks against them.

  seedcheck.py verify <dir-with-mutN.diff...> <pid>     (raw sub-agent output)
  seedcheck.py refs <dir-with-refN.diff...> <pid>       (behaviour-preserving refactorings: every check must stay silent)
  seedcheck.py run [<seeded-id> ...]                    (committed /verif/seeded/*)

For every change: scratch worktree of /repo HEAD outside /repo and /verif,
demo on the clean tree (must exit 0), apply the patch, unchanged test suite
(must pass), demo (must exit != 0), every check of /verif against the patched
tree (--repo, no evidence written).  The worktree is removed afterwards.
"""
import json
import os
import shutil
import subprocess
import sys
import tempfile
from concurrent.futures import ThreadPoolExecutor
from pathlib import Path

VERIF = Path(__file__).resolve().parent.parent
REPO = "/repo"
PY = "/venv/bin/python"
PIDS = [f"C{i:02d}" for i in range(1, 19)]


def sh(cmd, cwd=None, env=None, timeout=1800):
    e = dict(os.environ)
    e.update(env or {})
    p = subprocess.run(cmd, cwd=cwd, env=e, stdout=subprocess.PIPE, stderr=subprocess.STDOUT, text=True, timeout=timeout)
    return p.returncode, p.stdout


def one(patch: Path, demo: Path, pid: str, name: str, with_tests=True):
    wt = tempfile.mkdtemp(prefix=f"sv_{name}_", dir="/tmp")
    os.rmdir(wt)
    res = {"name": name, "property": pid}
    try:
        rc, out = sh(["git", "-C", REPO, "worktree", "add", "-q", "--detach", wt, "HEAD"])
        if rc:
            res["error"] = out
            return res
        shutil.copy(f"{REPO}/src/stationeers_pytrapic/_version.py", f"{wt}/src/stationeers_pytrapic/_version.py")
        env = {"PYTHONPATH": f"{wt}/src", "PYTRAPIC_ROOT": wt, "PYTHONDONTWRITEBYTECODE": "1"}
        if demo is not None:
            rc, out = sh([PY, str(demo)], cwd="/tmp", env=env, timeout=900)
            res["demo_clean"] = rc
            if rc:
                res["demo_clean_out"] = out[-600:]
        rc, out = sh(["git", "-C", wt, "apply", "--3way", str(patch)])
        if rc:
            rc, out = sh(["git", "-C", wt, "apply", str(patch)])
        res["apply"] = rc
        if rc:
            res["apply_out"] = out[-400:]
            return res
        if with_tests:
            rc, out = sh([PY, str(VERIF / "tools/pytest_relaxed.py"), wt], cwd="/tmp", env=env, timeout=1800)
            res["tests"] = rc
            res["tests_tail"] = out.strip().splitlines()[-1] if out.strip() else ""
        if demo is not None:
            rc, out = sh([PY, str(demo)], cwd="/tmp", env=env, timeout=900)
            res["demo_mutated"] = rc
            res["demo_mutated_tail"] = out.strip()[-300:]
        checks = {}
        for p in PIDS:
            rc, out = sh([str(VERIF / "check"), p, "--repo", wt, "--no-evidence"], cwd=str(VERIF))
            viol = [l.strip() for l in out.splitlines() if l.strip().startswith("violation:") or l.startswith("ANALYSIS-ERROR")]
            checks[p] = {"exit": rc, "reports": [v[:260] for v in viol][:6]}
        res["checks"] = checks
        res["caught_by_own"] = checks[pid]["exit"] == 1
        res["caught_by"] = [p for p, c in checks.items() if c["exit"] == 1]
        res["analysis_errors"] = [p for p, c in checks.items() if c["exit"] == 2]
    finally:
        sh(["git", "-C", REPO, "worktree", "remove", "--force", wt])
        shutil.rmtree(wt, ignore_errors=True)
    return res


def main(argv):
    mode = argv[0]
    jobs = []
    if mode == "verify":
        d, pid = Path(argv[1]), argv[2]
        for patch in sorted(d.glob("mut*.diff")):
            n = patch.stem[3:]
            demo = d / f"demo{n}.py"
            jobs.append((patch, demo, pid, f"{pid}-{n}", True))
    elif mode == "refs":
        d, pid = Path(argv[1]), argv[2]
        for patch in sorted(d.glob("ref*.diff")):
            jobs.append((patch, None, pid, f"{pid}-ref{patch.stem[3:]}", True))
    else:
        want = argv[1:]
        for sd in sorted((VERIF / "seeded").iterdir()):
            if not sd.is_dir() or (want and sd.name not in want):
                continue
            meta = json.loads((sd / "meta.json").read_text())
            jobs.append((sd / "patch.diff", sd / "demo.py", meta["property"], sd.name, os.environ.get("SEED_TESTS", "0") == "1"))
    with ThreadPoolExecutor(max_workers=int(os.environ.get("SEED_JOBS", "6"))) as ex:
        results = list(ex.map(lambda j: one(*j), jobs))
    for r in results:
        short = {k: v for k, v in r.items() if k not in ("checks",)}
        print(json.dumps(short))
        if "checks" in r:
            own = r["checks"][r["property"]]
            for rep in own["reports"][:3]:
                print("    own:", rep[:220])
            for p in r.get("caught_by", []):
                if p != r["property"]:
                    print(f"    also {p}:", r["checks"][p]["reports"][:1])
    out = os.environ.get("SEED_OUT")
    if out:
        Path(out).write_text(json.dumps(results, indent=1))


if __name__ == "__main__":
    main(sys.argv[1:])
