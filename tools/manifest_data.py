"""Per-property manifest texts."""

CHECKS = {
    "C09": {
        "text": "Static rule check over every construct through which text can reach the output: all 82 emission sites and 21 "
                "operator-table rows are resolved to finite opcode sets and compared with an IC10 signature oracle (opcode exists, "
                "operand count, output register); bool/None spellings are excluded by abstract dispatch of the operand class; the "
                "version-note bound and the float precisions are decided on the source. It decides structural clauses that are "
                "necessary for the property for every program, not the read-back of particular literals.",
        "design_ref": "DESIGN.md section 2, C09 (R09.a-d)",
        "note": "Trusted: CPython ast; sa/isa.py (IC10 signatures written from the game's reference, name set cross-checked against "
                "webapp/src/ic10.json on every run). Not decided: device-operand kinds, exact float read-back, text produced by a "
                "user's @emit_code function.",
        "technique": "static analysis: ast emission-site extraction + finite value-set evaluation of opcode expressions against an ISA table",
    },
}

NOT_APPLICABLE = {}
