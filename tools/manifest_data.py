"""Per-property manifest texts (tools/gen_manifest.py turns them into MANIFEST.json;
a property is only claimed when sa/props/<id>.py exists).  The rule ids refer to
DESIGN.md section 2 (what each clause decides) and section 6 (generated table of
rules and instance counts)."""

_T = "static analysis (ast, no execution): "
_TRUST = "Trusted: CPython ast and the oracle tables under sa/. "
_CANON = (" Every function is put into a canonical form first (extracted helpers expanded, guard clauses nested, comprehension / any / next / "
          "reduce idioms turned into loops, constants propagated), so that the verdict does not depend on how the code is spelled; a construct "
          "that is found but cannot be evaluated makes the run end in ANALYSIS-ERROR (exit 2), never in a verdict.")

CHECKS = {
    "C01": {
        "text": "Static rule check of the structural clauses that are necessary for source/IC10 equivalence, for every program: comparison "
                "tables and their involution; polarity of every branch emitted for if/while under both values of the negation flag, the "
                "constant-test arms decided by evaluating the flag computation over the booleans; a variable shares another value's "
                "register only when neither is assigned again; pruning only under a proven reason; loop lowerings set their continue/break "
                "labels, continue reaches the step code, the back jump is emitted with the loop; range direction; operator->opcode rows; "
                "operand origin and order at non-commutative sites; constant-list indexing; folding = emitted opcode semantics; return jumps; "
                "argument evaluation before stores; pass-level stacks balanced; every child gathered once; loop-widened lifetimes. Does not "
                "decide trace equivalence.",
        "design_ref": "DESIGN.md section 2 and 6, C01 (R01.a-r)",
        "note": _TRUST + "Not decided: evaluation order of stitched fragments, used/const inference as a whole, anything that depends on "
                "program shape. Six known findings (pinned by reference files or design-level).",
        "technique": _T + "emission-site extraction, value-set evaluation of opcode expressions under flag case splits, boolean abstract "
                     "execution (sa/boolflow.py), guard queries on a per-function CFG, reaching definitions, table extraction." + _CANON,
    },
    "C02": {
        "text": "Static rule check of what makes the options change size and layout only: the directive scan dominates every option read; "
                "layout-only options and the output mode are read only in the rendering layer / spelling functions; every inlining "
                "decision is one predicate; both calling conventions have every role; the tail-call rewrite and the dropped 'j ra' hang "
                "on one flag, guarded by 'neither function inlined'; the ra logic finds a function's own exits whatever is spliced in; "
                "NO program is rejected because of an option (no raise is control-dependent on an option field); tail calls leave the "
                "stack pointer alone; 'compact' does not change what folds; remove_labels rewrites label operands only; inlining shares "
                "a parameter only when nothing is reassigned. Not the behavioural equivalence of the 2^8 outputs.",
        "design_ref": "DESIGN.md section 2 and 6, C02 (R02.a-l)",
        "note": _TRUST + "Not decided: behavioural equivalence of outputs under different option vectors. Two known findings (tail call "
                "with saved ra; inlined parameter sharing a reassigned global).",
        "technique": _T + "option-read inventory on canonical functions, truth tables of inlining predicates, guard sets of every raise, "
                     "regex oracle for the label substitution, rules shared with C01/C03/C05/C06/C07." + _CANON,
    },
    "C03": {
        "text": "Static rule check of every row of the operator tables (key operator = evaluator operator on (first, second); evaluator "
                "semantics = opcode semantics, library functions through a table of known-equal / known-different ones; table factories "
                "beta-reduced), of the math-function table, the named constants, the operand coercion (every return a double or the "
                "number of a hash/string constant; every symbolic spelling of the output mode understood and cut exactly), the guard "
                "under which constants travel through variables, the call sites of the evaluators and the exact-integer rule of "
                "IC10Operand. Table agreement for all rows, not numeric agreement on all doubles.",
        "design_ref": "DESIGN.md section 2 and 6, C03 (R03.a-m)",
        "note": _TRUST + "Not decided: IEEE corner cases (NaN, overflow, negative shift/modulus) of particular operands.",
        "technique": _T + "table extraction and per-row comparison of the evaluator lambda's AST with an operator-semantics oracle; "
                     "producer/consumer agreement of symbolic spellings between types.py and utils.py." + _CANON,
    },
    "C04": {
        "text": "Static rule check of the allocator: register universe r0..r(K-1), K<=16; raising bound test on the free list; half-open "
                "lifetimes, a temporary spans its whole statement, the release test implies disjointness; loop widening over all accesses "
                "with an outer-loop search; module-level values of every module (all writers examined) are unbounded; the callers of a "
                "function are guaranteed to contain its call sites and all module scopes, module scopes form a chain (abstract "
                "interpretation of called_from); blocked sets transitive and recorded for every scope; callers ordered first; sweep order; "
                "names that stand for another value's register hand their accesses to the value at the end of the chain; device-id "
                "registers and inlined result registers are kept. Necessary conditions; liveness of emitted code for a given program is "
                "not decided.",
        "design_ref": "DESIGN.md section 2 and 6, C04 (R04.a-j)",
        "note": _TRUST + "Not decided: whether line intervals over-approximate liveness of emitted code (needs liveness analysis of outputs).",
        "technique": _T + "abstract interpretation of the caller sets (sa/callersets.py), data-flow rules on register_assignment.py and "
                     "IC10Register.lifetime, linear-normal-form implication, guard-set comparison." + _CANON,
    },
    "C05": {
        "text": "Static rule check: the substitution pattern of remove_labels, evaluated as a regex with its replacement discipline against "
                "the label alphabet of the repository's own label constructors, matches whole labels only and never inside quoted text; "
                "every label is substituted in every line; label -> index of the following instruction; no line is inserted or removed "
                "afterwards; per handler every label operand has one definition; loop labels; function labels built from the qualified "
                "name everywhere; get_label always advances; pass-level stacks balanced; the ra logic keeps the last end label. Not the "
                "line-by-line equality of both label modes.",
        "design_ref": "DESIGN.md section 2 and 6, C05 (R05.a-j)",
        "note": _TRUST + "Not decided: collisions of user identifiers with opcodes/registers; whole-output relation between label modes.",
        "technique": _T + "regex oracle (re on probe lines built from the extracted alphabet, re._parser for the evidence), def/ref pairing "
                     "of label variables over emission sites, CFG reachability after the numbering step." + _CANON,
    },
    "C06": {
        "text": "Static rule check: caller and callee agree on argument slot/order and result slot in both conventions (linear forms over "
                "the loop index); every argument stored / parameter fetched unconditionally; wrong argument counts rejected under every "
                "option vector; push ra <=> pop ra per branch; every exit form recognised by the needs-ra predicate, which reads the "
                "emitted list; subroutine lowerings save ra; restore after the LAST matching end label; inserts from the highest index "
                "down; 'pop ra' in front of the pushed value at every exit point; arguments before the jal in the call's own fragment; "
                "return jumps; tail jumps only when nothing is pending after the call. Necessary structure, not run-time stack balance.",
        "design_ref": "DESIGN.md section 2 and 6, C06 (R06.a-n)",
        "note": _TRUST + "Not decided: run-time stack-pointer balance along all paths. Two known findings (tail call with saved ra, "
                "list-for body subroutine).",
        "technique": _T + "emission-site pairing across caller/callee handlers under the convention flag, linear normal form of slot "
                     "expressions, abstract instruction fed through the needs-ra predicate, data flow of insert positions." + _CANON,
    },
    "C07": {
        "text": "Static rule check of the gather pass and of compile_function: one model of GatherCode.run turns every statement that adds "
                "lines into a formula over (main, called, constexpr) and evaluates it for all assignments - main region first, emitted iff "
                "main or called, never constexpr; a non-fall-through transfer after the main region (known finding: the tree has none); "
                "every function region terminated after its end label also under tail calls; region emitted iff not inlined; tail jumps "
                "only between real functions; early returns target their own end label; emission target restored after nested "
                "definitions; functions known in visiting order; loops closed by their back jump; ra never confused with a pushed value.",
        "design_ref": "DESIGN.md section 2 and 6, C07 (R07.a-j)",
        "note": _TRUST + "Not decided: whether a given program's main code terminates. Known findings: missing terminator after main "
                "(pinned by reference files), tail call with saved ra.",
        "technique": _T + "formula model of the emission statements, ISA table saying which opcodes fall through, rules shared with "
                     "C01/C02/C05/C06." + _CANON,
    },
    "C08": {
        "text": "Static rule check: calc_hash is CRC-32 of the UTF-8 bytes folded to signed 32 bit (a listed idiom, or the closed integer "
                "arithmetic evaluated on the boundary values of an unsigned 32-bit number); compute_string packs big-endian in forward "
                "order; number and spelling derive from one string; _apply_output_mode returns spelling / number by mode over all return "
                "paths; compute_hash removes exactly the wrapper it tested for; format_enum prints name/value of one object, prefix "
                "dropped by type; mode read only by the spelling functions; enum numbers unique; hex only below 2**53; CRC computed in one "
                "place; folding independent of the spelling and aware of every symbolic spelling. Token-level agreement per spelling "
                "function, not whole-output equality.",
        "design_ref": "DESIGN.md section 2 and 6, C08 (R08.a-j)",
        "note": _TRUST + "Not decided: agreement of enum numbers with the game's tables (not available offline): seeded change C08-1, a "
                "transposition of two numbers, is not caught.",
        "technique": _T + "idiom recognition plus closed-expression evaluation on witnesses, return-path value sets, reader inventory of "
                     "the mode variable, enum table extraction." + _CANON,
    },
    "C09": {
        "text": "Static rule check over every construct through which text can reach the output: all emission sites, opcode rewrites and "
                "operator-table rows are resolved to finite opcode sets and compared with an IC10 signature oracle (opcode exists, "
                "operand count, output register; a destination is cleared only with an opcode rewrite); bool/None/empty spellings "
                "excluded; version-note bound; >= 16 significant digits at every float format, also for floats carried by register "
                "objects; whole floats leave IC10Operand as int whatever their size; operand kinds at access sites; register numbers "
                "written into every collected register object.",
        "design_ref": "DESIGN.md section 2 and 6, C09 (R09.a-f)",
        "note": _TRUST + "sa/isa.py is written from the game's reference and cross-checked against webapp/src/ic10.json on every run. "
                "Not decided: exact float read-back, text produced by a user's @emit_code function. Known findings: '~' -> 'neg', the constant None, a truth value through an inlined parameter.",
        "technique": _T + "emission-site extraction + finite value-set evaluation of opcode expressions (dict comprehensions, table "
                     "factories) against an ISA table." + _CANON,
    },
    "C10": {
        "text": "Static rule check: effect analysis of compile_code (every call outside a catch-all try is total on the stated input "
                "domain - string-function lemmas for the scanner, repository functions assumed total have their bodies checked); "
                "Compiler.compile is one try ending in a catch-all whose handlers return error dictionaries, guard optional parts, do no "
                "arithmetic on None positions and pass end positions on only after a range check; typestate of the constexpr child on a "
                "CFG with exception edges, bounded wait; a rejecting pass; every while loop an audited worklist or a recognised "
                "terminating walk; nothing cached across compilations holds an exception or node.",
        "design_ref": "DESIGN.md section 2 and 6, C10 (R10.a-f)",
        "note": _TRUST + "Assumes the subprocess transport (no pyodide 'js' module). Not decided: wall-clock bounds, termination in general.",
        "technique": _T + "exception-containment effect analysis and child-process typestate on a hand-built CFG with exception edges; "
                     "structural termination arguments for loops." + _CANON,
    },
    "C11": {
        "text": "Static rule check: inventory of every module-level binding written from the compile path with a per-binding obligation "
                "(mode per compile from options only, cache keyed by the executed text, hash table filled once and changed nowhere else); "
                "no process-wide interpreter setting changed without restore; options/src never mutated; attribute stores on device "
                "singletons only on fresh copies or audited sites; no in-place mutation of received containers; no order-dependent loop "
                "over a set of names; what outlives a compilation carries nothing of it.",
        "design_ref": "DESIGN.md section 2 and 6, C11 (R11.a-f)",
        "note": _TRUST + "Not decided: astroid's own caches; equality with a fresh process as a whole.",
        "technique": _T + "global-write inventory over the call graph, alias/mutation analysis of parameters with reaching definitions." + _CANON,
    },
    "C12": {
        "text": "Static rule check: a constexpr source is registered only after the rejecting validation whose regex covers open/eval/exec "
                "as whole words over the whole source; constexpr functions emit no code; the evaluation-script template (parsed as Python; "
                "the script variable found by data flow from exec / Popen) binds HASH to calc_hash last, identity decorators first, "
                "library functions only inside 'class <module>:', json writer/reader partners by data flow from communicate(); the text "
                "is not formatted again, decoded without conversion hooks, run by an interpreter without -O; the cache key is the script "
                "text; returned containers are not mutated.",
        "design_ref": "DESIGN.md section 2 and 6, C12 (R12.a-e)",
        "note": _TRUST + "Not decided: survival of arbitrary argument expressions through as_string().",
        "technique": _T + "dominance on the registration path, regex AST analysis, parsing the f-string script template as Python, data flow." + _CANON,
    },
    "C13": {
        "text": "Static rule check: function code is appended only for the main region or called functions and never for constexpr "
                "functions (formula model); __name__ folds to '__main__' only for the main scope; every access to the per-compile tables "
                "is keyed by the qualified scope name or a key drawn from the tables; module-level values of every module unbounded; "
                "aliases renamed consistently; the module's name flows into every scope name; functions below all modules and modules in a "
                "chain (abstract interpretation); qualified labels; the forwarding pass skips dead code; modules visited in import order.",
        "design_ref": "DESIGN.md section 2 and 6, C13 (R13.a-i)",
        "note": _TRUST + "Not decided: equivalence with the hand-merged single file.",
        "technique": _T + "guard queries at the emission loop and fold site, keyed-access inventory of the storage tables, flow of the "
                     "module name through get_scope_name, sa/callersets.py." + _CANON,
    },
    "C14": {
        "text": "Static rule check of mod_daemon: stdout redirected before any other import, saved handle used at one reply site, no other "
                "route to fd 1, every child gets its own stdout; every path through process_input for a non-empty line passes exactly one "
                "reply (also when the reply sits in a helper), the reply is base64(json) of an error object or compile_code's dictionary; "
                "process_input never calls itself; the loop leaves only on EOF (decided on the unstripped line) or EXIT, and the line compared "
                "with EXIT is text, not bytes; nothing outside the guarded region can raise.",
        "design_ref": "DESIGN.md section 2 and 6, C14 (R14.a-c)",
        "note": _TRUST + "Not decided: behaviour under real pipes and signals; the C# client is read for context only.",
        "technique": _T + "ownership rule for fd 1 plus exactly-one-reply path analysis on the CFG of process_input (finally copies, "
                     "exception edges), symbolic stage reading of the reply encoding." + _CANON,
    },
    "C15": {
        "text": "Static rule check of the directive scanner: membership against the dataclass field set for the very value that is applied; "
                "'-'->'_' before the 'no_' test and exactly the prefix removed; '#' guard on the stripped line of the main source; only "
                "the named attribute of a private options object assigned, with the polarity value; scan before any option read; source "
                "order without break (last wins) - for setattr in the loop, for a dictionary applied afterwards, and for options made "
                "from the collected dictionary (directives merged in last, on every way to the compiler).",
        "design_ref": "DESIGN.md section 2 and 6, C15 (R15.a-e)",
        "note": _TRUST + "Not decided: equality of the two compilation results as a whole.",
        "technique": _T + "symbolic path evaluation of the name/value expressions for both prefix polarities, dominance/ordering rules on "
                     "compile_code, virtual application sites." + _CANON,
    },
    "C16": {
        "category": "exploration",
        "text": "Exhaustive enumeration, from the source text, of all generated structure classes (hash = own signed CRC-32 of the prefab "
                "name, singular/plural pairing, logic-type and slot properties, named slots -> numbered slots), all enum classes (no "
                "duplicate numbers, auto() expanded) and all intrinsic wrappers (own opcode, operands in order, output iff the ISA oracle "
                "says so; private helpers judged where they are expanded), the generic device properties, the printing function and the "
                "wrapper removal of compute_hash. The whole statement is decided for the tables of the working tree.",
        "design_ref": "DESIGN.md section 2 and 6, C16 (R16.a-g)",
        "note": _TRUST + "Own CRC-32 (sa/crc.py, cross-checked against zlib at start-up); sa/isa.py for instruction signatures. Nine known "
                "findings in the generated intrinsics (generator not in the repository).",
        "technique": _T + "exhaustive table extraction from the generated modules and cross-checking against an independent CRC-32 and the ISA oracle",
    },
    "C17": {
        "text": "Static rule check: 'code', num_lines and num_bytes are computed from one final string by the stated formulas (every reaching "
                "definition judged; linear normal form len(s) + max(num_lines - 1, 0)); every store into the allocation map is followed on "
                "every path by an addition to a set that registers_by_scope keeps, and the returned set is the union over all scopes.",
        "design_ref": "DESIGN.md section 2 and 6, C17 (R17.a-c)",
        "note": _TRUST + "Decides the formulas and the pairing, for every program.",
        "technique": _T + "reaching definitions + linear normal form on the statistics expressions, store/add pairing on the allocator's CFG." + _CANON,
    },
    "C18": {
        "text": "Static rule check: the stage lists of encode_data and decode_data (symbolic reading through helpers, conditionals, "
                "translate tables) are inverse partners of a library inverse-pair table with matching codecs and no behaviour-changing "
                "argument; nothing but codec stages touches the data; the character substitutions are inverse maps and remove exactly "
                "+ / =; padding is restored as (-len) mod 4.",
        "design_ref": "DESIGN.md section 2 and 6, C18 (R18.a-c)",
        "note": _TRUST + "Trusts the standard library pairs to be inverse; not decided: json round-trip of exotic values (NaN, non-string keys, lone surrogates).",
        "technique": _T + "stage extraction from both functions and pairing against an inverse-pair table",
    },
}

NOT_APPLICABLE = {}
