"""Per-property manifest texts (tools/gen_manifest.py turns them into MANIFEST.json;
a property is only claimed when sa/props/<id>.py exists)."""

_T = "static analysis (ast, no execution): "
_TRUST = "Trusted: CPython ast and the oracle tables under sa/. "

CHECKS = {
    "C01": {
        "text": "Static rule check of the structural clauses that are necessary for source/IC10 equivalence: comparison tables and "
                "their involution, polarity of every branch emitted for if/while under both values of the negation flag, aliasing "
                "only for single-assignment values, pruning only under proven constness/unusedness, loop lowerings set their "
                "continue/break labels and continue reaches the step code, range direction, operator->opcode rows, operand origin "
                "and order at non-commutative sites. Decides these clauses for every program; does not decide trace equivalence.",
        "design_ref": "DESIGN.md section 2 and 6, C01 (R01.a-k)",
        "note": _TRUST + "Not decided: evaluation order of stitched fragments, used/const inference as a whole, the select-chain / "
                "jump-table lowering, anything depending on program shape.",
        "technique": _T + "emission-site extraction, value-set evaluation of opcode expressions under flag case splits, guard/dominator queries on a per-function CFG, table extraction",
    },
    "C02": {
        "text": "Static rule check: directive scan dominates every option read; layout-only options and the output mode are read only "
                "in the rendering layer; every inlining decision site reduces to the same predicate; both calling conventions have an "
                "emission site for every role; the tail-call rewrite and the suppressed 'j ra' hang on the same flag. Structural "
                "necessary conditions for option-independence, not the behavioural equivalence of 2^8 outputs.",
        "design_ref": "DESIGN.md section 2, C02 (R02.a-e)",
        "note": _TRUST + "Not decided: behavioural equivalence of outputs under different option vectors.",
        "technique": _T + "option-read inventory over the call graph, boolean normalisation of inlining predicates, role coverage of emission sites under a flag case split",
    },
    "C03": {
        "text": "Static rule check of every row of the operator tables (key operator = evaluator operator, opcode class = evaluator "
                "class, bitwise rows evaluate on integers), of the math-function table (name is a math function of that arity and an "
                "intrinsic of the same name), of the named constants, of the operand coercion, and of the guard under which a "
                "constant is propagated through a variable. Decides table agreement for all rows, not numeric agreement on all doubles.",
        "design_ref": "DESIGN.md section 2 and 6, C03 (R03.a-j)",
        "note": _TRUST + "Not decided: IEEE corner cases (NaN, overflow, negative shift/modulus) of particular operands.",
        "technique": _T + "table extraction and per-row comparison of the evaluator lambda's AST with an operator-semantics oracle",
    },
    "C04": {
        "text": "Static rule check of the allocator: register universe is r0..r(K-1), K<=16; the index into the free list is dominated "
                "by a raising bound test; lifetimes are half-open and the release test implies disjointness; loop widening is applied "
                "to every node entering min/max; module-level values of every module get the unbounded lifetime; a scope's available "
                "set subtracts all callers' blocked sets, transitively, and scopes are ordered after their callers; colouring sweeps "
                "in order of lifetime start. Necessary conditions; soundness of line-interval lifetimes for a given program is not decided.",
        "design_ref": "DESIGN.md section 2, C04 (R04.a-g)",
        "note": _TRUST + "Not decided: whether line intervals over-approximate liveness of emitted code (needs liveness analysis of outputs).",
        "technique": _T + "shape rules on register_assignment.py and IC10Register.lifetime with linear-normal-form implication and a taint rule (sanitizer get_loop_ancestor)",
    },
    "C05": {
        "text": "Static rule check: the substitution pattern of remove_labels delimits whole operand tokens with respect to the label "
                "alphabet derived from the repository's own label constructors; per handler every label used as operand is defined "
                "exactly once; all loop lowerings set continue/break labels; all constructions of a function label agree on the "
                "qualified name and transformation; get_label always advances its counter. Decides these clauses, not the line-by-line "
                "equality of both label modes.",
        "design_ref": "DESIGN.md section 2 and 6, C05 (R05.a-f)",
        "note": _TRUST + "Not decided: collisions of user identifiers with opcodes/registers; whole-output relation between label modes.",
        "technique": _T + "regex AST analysis (re._parser) against the extracted label alphabet, def/ref pairing of label variables over emission sites",
    },
    "C06": {
        "text": "Static rule check: caller and callee agree on argument slot/ordering and result slot in both conventions; every branch "
                "that inserts 'push ra' inserts 'pop ra'; the end label searched by the ra logic is the one the generator defines; "
                "every exit form of compile_function is recognised by the needs-ra predicate; nested subroutine emitters save ra; the "
                "restore sits after the end label. Necessary structure of the convention, not run-time stack balance.",
        "design_ref": "DESIGN.md section 2 and 6, C06 (R06.a-i)",
        "note": _TRUST + "Not decided: run-time stack-pointer balance along all paths.",
        "technique": _T + "emission-site pairing across caller/callee handlers under the convention flag, linear normal form of slot expressions",
    },
    "C07": {
        "text": "Static rule check of the gather pass and of compile_function: the main region is emitted first; a non-fall-through "
                "transfer must separate it from the first function region (the tree has none: known finding, pinned by the reference "
                "files); every emitted function region is terminated after its end label, also under tail-call optimisation; region "
                "emitted iff not inlined (one predicate); tail jumps only between non-inlined functions.",
        "design_ref": "DESIGN.md section 2 and 6, C07 (R07.a-e)",
        "note": _TRUST + "Not decided: whether a given program's main code terminates.",
        "technique": _T + "ordering/must-pass-through rule on the gather loop with the ISA table saying which opcodes fall through",
    },
    "C08": {
        "text": "Static rule check: calc_hash is CRC-32 of the UTF-8 bytes folded to signed 32 bit; compute_string packs big-endian in "
                "forward order; number and symbolic spelling derive from one unmodified variable; _apply_output_mode returns the "
                "spelling / the number by mode; format_enum prints name/value of one object; the mode is read only by the spelling "
                "functions; enum numbers are unique. Decides token-level agreement per spelling function, not whole-output equality.",
        "design_ref": "DESIGN.md section 2 and 6, C08 (R08.a-h)",
        "note": _TRUST + "Not decided: agreement of enum numbers with the game's tables (not available offline).",
        "technique": _T + "idiom recognition with reaching definitions on the spelling functions, reader inventory of the mode variable, enum table extraction",
    },
    "C09": {
        "text": "Static rule check over every construct through which text can reach the output: all emission sites and operator-table "
                "rows are resolved to finite opcode sets and compared with an IC10 signature oracle (opcode exists, operand count, "
                "output register); bool/None spellings are excluded by abstract dispatch of the operand class; the version-note bound "
                "and the float precisions are decided on the source. Necessary structural clauses for every program, not the read-back "
                "of particular literals.",
        "design_ref": "DESIGN.md section 2, C09 (R09.a-d)",
        "note": _TRUST + "sa/isa.py is written from the game's reference and cross-checked against webapp/src/ic10.json on every run. "
                "Not decided: device-operand kinds, exact float read-back, text produced by a user's @emit_code function.",
        "technique": _T + "emission-site extraction + finite value-set evaluation of opcode expressions against an ISA table",
    },
    "C10": {
        "text": "Static rule check: effect analysis of compile_code (every call outside a catch-all try is in a proven-total set on the "
                "stated input domain), Compiler.compile is one try ending in a catch-all that returns an error dictionary; typestate "
                "of the constexpr child process on a CFG with exception edges (reaped or killed+reaped on every exit, bounded wait); "
                "a rejecting pass precedes code generation; audited while-loop inventory. Not wall-clock bounds.",
        "design_ref": "DESIGN.md section 2, C10 (R10.a-e)",
        "note": _TRUST + "Assumes the subprocess transport (no pyodide 'js' module). Not decided: timing, positions inside the text, termination in general.",
        "technique": _T + "exception-containment effect analysis and child-process typestate on a hand-built CFG with exception edges",
    },
    "C11": {
        "text": "Static rule check: inventory of every module-level binding written from the compile path with a per-binding obligation "
                "(mode set per compile from options only, cache keyed by the executed text, hash set filled once from constants); "
                "parameters options/src are never mutated; attribute stores on shared device singletons only on fresh copies or "
                "audited sites; no in-place mutation of containers that came from parameters or cached constants.",
        "design_ref": "DESIGN.md section 2, C11 (R11.a-d)",
        "note": _TRUST + "Not decided: astroid's own caches; equality with a fresh process as a whole.",
        "technique": _T + "global-write inventory over the call graph, alias/mutation analysis of parameters with reaching definitions",
    },
    "C12": {
        "text": "Static rule check: a constexpr source is registered only after the rejecting validation whose regex covers open/eval/exec "
                "as whole words; constexpr functions emit no code; in the evaluation-script template (parsed as Python) HASH is bound "
                "to calc_hash last, identity decorators precede user code and json writer/reader are partners; the cache key is the "
                "script text.",
        "design_ref": "DESIGN.md section 2, C12 (R12.a-d)",
        "note": _TRUST + "Not decided: survival of arbitrary argument expressions through as_string().",
        "technique": _T + "dominance on the registration path, regex AST analysis, parsing the f-string script template as Python",
    },
    "C13": {
        "text": "Static rule check: function code is appended only for the main region or called functions and never for constexpr "
                "functions; __name__ folds to '__main__' only for the main scope; every access to the per-compile symbol/structure "
                "tables is keyed by the qualified scope name; module-level values of every module get the unbounded lifetime.",
        "design_ref": "DESIGN.md section 2 and 6, C13 (R13.a-g)",
        "note": _TRUST + "Not decided: equivalence with the hand-merged single file.",
        "technique": _T + "guard queries at the emission loop and fold site, keyed-access inventory of the storage tables",
    },
    "C14": {
        "text": "Static rule check of mod_daemon: stdout redirected before any other import, saved handle used at one reply site, no "
                "other route to fd 1, every child process gets its own stdout; every path through process_input after the empty-line "
                "return passes exactly one reply (definite assignment into the finally, catch-all handler); the loop leaves only on "
                "EOF/EXIT.",
        "design_ref": "DESIGN.md section 2, C14 (R14.a-c)",
        "note": _TRUST + "Not decided: behaviour under real pipes and signals; the C# client is read for context only.",
        "technique": _T + "ownership rule for fd 1 plus exactly-one-reply path analysis on the CFG of process_input (finally copies, exception edges)",
    },
    "C15": {
        "text": "Static rule check of the directive scanner: membership against the dataclass field set, '-'->'_' before the 'no_' test, "
                "'#' guard on the stripped line of the main source, only the named attribute assigned with the polarity value, scan "
                "before any option read, source order without break (last wins).",
        "design_ref": "DESIGN.md section 2, C15 (R15.a-e)",
        "note": _TRUST + "Not decided: equality of the two compilation results as a whole.",
        "technique": _T + "dominance/ordering rules on compile_code with the CompileOptions fields parsed from the dataclass",
    },
    "C16": {
        "category": "exploration",
        "text": "Exhaustive enumeration, from the source text, of all generated structure classes (hash = own signed CRC-32 of the "
                "prefab name, singular/plural pairing, logic-type and slot properties, named slots -> numbered slots), all enum "
                "classes (no duplicate numbers) and all intrinsic wrappers (own opcode, operands in order, output iff the ISA oracle "
                "says so). The whole statement is decided for the tables of the working tree.",
        "design_ref": "DESIGN.md section 2 and 6, C16 (R16.a-f)",
        "note": _TRUST + "Own CRC-32 (sa/crc.py, cross-checked against zlib at start-up); sa/isa.py for instruction signatures.",
        "technique": _T + "exhaustive table extraction from the generated modules and cross-checking against an independent CRC-32 and the ISA oracle",
    },
    "C17": {
        "text": "Static rule check: 'code', num_lines and num_bytes are computed from one final string by the stated formulas (linear "
                "normal form len(s)+num_lines-1); every store into the allocation map is paired with an addition to the used set and "
                "the returned set is the union over all scopes.",
        "design_ref": "DESIGN.md section 2, C17 (R17.a-c)",
        "note": _TRUST + "Decides the formulas and the pairing, for every program.",
        "technique": _T + "reaching definitions + linear normal form on the statistics expressions, store/add pairing on the allocator's CFG",
    },
    "C18": {
        "text": "Static rule check: the stage lists of encode_data and decode_data are inverse partners of a library inverse-pair table "
                "with matching codecs; the character substitutions are inverse maps and remove exactly + / =; padding is restored as "
                "(-len) mod 4.",
        "design_ref": "DESIGN.md section 2, C18 (R18.a-c)",
        "note": _TRUST + "Trusts the standard library pairs to be inverse; not decided: json round-trip of exotic values (NaN, non-string keys).",
        "technique": _T + "stage extraction from both functions and pairing against an inverse-pair table",
    },
}

NOT_APPLICABLE = {}
