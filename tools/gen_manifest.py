#!/venv/bin/python
"""Regenerates /verif/MANIFEST.json from the table below (kept next to the
checkers so that the manifest cannot drift from what exists)."""
import json
import os
import sys

HERE = os.path.dirname(os.path.dirname(os.path.abspath(__file__)))
sys.path.insert(0, HERE)

from tools.manifest_data import CHECKS, NOT_APPLICABLE  # noqa: E402

props = [json.loads(l) for l in open(os.path.join(HERE, "properties.jsonl"))]
ids = [p["id"] for p in props]
checks = []
for pid in ids:
    if pid not in CHECKS:
        continue
    c = CHECKS[pid]
    if not os.path.isfile(os.path.join(HERE, "sa", "props", pid.lower() + ".py")):
        continue
    checks.append({
        "property_id": pid,
        "quick_cmd": f"./check {pid} --tier quick",
        "thorough_cmd": f"./check {pid} --tier thorough",
        "evidence_file": f"evidence/{pid}.json",
        "replay_cmd_template": f"./check {pid} --replay {{path}}",
        "engine": "sa",
        "level_claimed": {"category": c.get("category", "other"), "text": c["text"], "design_ref": c["design_ref"]},
        "level_note": c["note"],
        "technique": c["technique"],
    })
claimed = {c["property_id"] for c in checks}
na = []
for pid in ids:
    if pid not in claimed:
        na.append({"property_id": pid, "reason": NOT_APPLICABLE.get(pid, "checker not built yet in this session; see DESIGN.md for the planned structural clauses")})
man = {
    "version": 1,
    "setup_cmd": "/venv/bin/python -m compileall -q sa tools check >/dev/null 2>&1; /venv/bin/python -c \"import ast,sys; sys.path.insert(0,'.'); import sa.runner\"",
    "hooks": {
        "guard": "PYTRAPIC_VERIF",
        "enable": "no hooks: the checkers read /repo's sources with ast and never import or run them",
        "baseline_off_cmd": "cd /repo && /venv/bin/python -m pytest -ra -q -p no:cacheprovider --timeout=900 --continue-on-collection-errors",
        "source_commits": [],
        "add_only": True,
    },
    "engines": [{
        "name": "sa", "path": "sa/", "serves_properties": sorted(claimed),
        "kind_free_text": "repository-specific static analysis on Python ast: repo model + call/handler registry, per-function CFG with guards/dominators/reaching definitions, finite value-set evaluation of opcode expressions, emission-site extraction, table extraction, linear normal forms; oracle tables in sa/isa.py etc.",
    }],
    "checks": checks,
    "notes": "Static analysis only: no registered command imports or executes the repository. Exit 0 = all rule instances hold (known findings listed as KNOWN-FINDING lines), exit 1 = VIOLATION line(s), exit 2 = ANALYSIS-ERROR (anchor vanished / floor not met / checker failure). Known findings: known_findings.json. Seeded changes: seeded/.",
    "not_applicable": na,
}
json.dump(man, open(os.path.join(HERE, "MANIFEST.json"), "w"), indent=1)
print("claimed", sorted(claimed), "n/a", [x["property_id"] for x in na])
