#!/venv/bin/python
"""Prepare one seeding round: scratch worktrees /tmp/<round>/Cxx of /repo HEAD, each with TASK.md and out/run_tests.py.

  seedtask.py <round-dir-name>            e.g. seed3   -> /tmp/seed3/C01 .. C18

The task text gives a fresh sub-agent only the property, the titles of the changes earlier rounds produced for it and
its own worktree; nothing from /verif.  Import the results with seedimport.py, remove the worktrees afterwards.
"""
import glob
import json
import os
import shutil
import subprocess
import sys

T = """# Task: realistic changes to one code base, judged against one semantic property

You are working in a scratch git worktree of the project **stationeers-pytrapic**
(PyTrapIC: a multi-pass transpiler from a Python subset to Stationeers IC10 assembly).
Your worktree is `{wt}` — work ONLY there. Do not read or modify `/repo` or `/verif`
(off limits: what you produce must be independent of anything outside your worktree). Never use `git stash`
(the stash is shared between worktrees); use `git diff > file` and `git checkout -- .` instead.

## The property

**{id} — {title}**

Statement: {statement}

Quantifier: {quant}

Why the existing tests cannot settle it: {why}

Anchors (where the mechanisms live; line numbers are approximate):
```
{anchors}
```

## Part A — two changes that BREAK the property (files `mutN.*`, N = 1, 2)

Each change, on its own, must
1. break the property above — a realistic bug a developer could introduce in a refactoring, an optimisation, a
   clean-up or a well-meant feature (not absurd sabotage);
2. still import and still pass the whole existing test suite unchanged (see "Running the tests");
3. need something specific to manifest: a particular program shape, an unusual input, a particular option
   combination, a multi-step sequence of calls, a fault at a particular point, or two cooperating sites that each look
   fine alone. Changes that ordinary use or the existing tests expose at once are NOT wanted.

Earlier rounds already produced the following changes for this property — do something DIFFERENT (other mechanism,
other site, other kind of mistake; prefer parts of the code base the list below has not touched yet):
{prev}

For each N write into `{wt}/out/`: `mutN.diff` (`git diff` against HEAD, source only), `demoN.py` (self-contained; run as
`PYTHONPATH=<root>/src /venv/bin/python demoN.py`; must **exit 0 on the unmodified tree** and **exit non-zero with a clear
assertion message with the change applied**; typical API: `from stationeers_pytrapic.compiler import compile_code,
CompileOptions`; `compile_code(src, CompileOptions(...))` returns a dict with 'code' or 'error'; the demo may interpret the
emitted IC10 with a tiny interpreter written inside the demo; if a demo depends on constexpr evaluation it must stretch the
1 s child time-out itself the way `out/run_tests.py` does), `metaN.json`
(`{{"property": "{id}", "title": "...", "what_breaks": "...", "needs_to_manifest": "...", "files_touched": [...],
"why_tests_pass": "...", "ran": [...]}}`).

## Part B — two changes that do NOT break the property (files `refN.*`, N = 1, 2)

Behaviour-preserving refactorings of exactly the code the anchors name, of the kind a maintainer does all the time:
rename locals or helper functions, extract or inline a helper, replace an idiom by an equivalent one (if/else <-> conditional
expression, `.format` <-> f-string, a comparison written the other way round, a dict built differently, a loop rewritten as a
comprehension, early return <-> nested if, reordering independent statements, moving a constant to module level, ...).
Each must touch the mechanisms in the anchors substantially (not only comments or whitespace), keep the property TRUE for every
input, and keep the whole test suite passing. Write `refN.diff` and `refN.json`
(`{{"property": "{id}", "what_changed": "...", "why_behaviour_is_unchanged": "...", "ran": [...]}}`).
Make the two refactorings different in kind, and make each of them non-trivial (10-60 changed lines).

## Running the tests

The sandbox is heavily loaded, which makes the compiler's hard-coded 1 s time-out for constexpr child processes fire
spuriously. Run the unchanged suite through the provided wrapper, which only stretches that time-out:
`cd {wt} && PYTHONPATH={wt}/src /venv/bin/python {wt}/out/run_tests.py {wt}` — expect `94 passed`.

Procedure per change: start from a clean tree (`git -C {wt} checkout -- .`; `out/` and `_version.py` are untracked and
survive), make the change, run the suite, (Part A: run the demo, it must fail), save the diff, revert, (Part A: run the demo,
it must pass). Verify everything yourself; do not report a change you have not verified. Never run python with
`src/stationeers_pytrapic` as the current directory (its `types.py` shadows the stdlib module). No network.
Leave the worktree clean at the end; keep only `out/`.

Final answer: one line per change (mut1, mut2, ref1, ref2) and whether it was verified.
"""


def main(argv):
    rnd = argv[0]
    base = f"/tmp/{rnd}"
    os.makedirs(base, exist_ok=True)
    props = [json.loads(l) for l in open("/verif/properties.jsonl")]
    prev = {}
    for d in sorted(glob.glob("/verif/seeded/C*-*")):
        m = json.load(open(d + "/meta.json"))
        prev.setdefault(m["property"], []).append((m.get("title") or m.get("what_breaks") or "")[:200])
    for p in props:
        wt = f"{base}/{p['id']}"
        if not os.path.isdir(wt):
            subprocess.run(["git", "-C", "/repo", "worktree", "add", "-q", "--detach", wt, "HEAD"], check=True)
        shutil.copy("/repo/src/stationeers_pytrapic/_version.py", f"{wt}/src/stationeers_pytrapic/_version.py")
        os.makedirs(f"{wt}/out", exist_ok=True)
        shutil.copy("/verif/tools/pytest_relaxed.py", f"{wt}/out/run_tests.py")
        pv = "\n".join(f"  - {t}" for t in prev.get(p["id"], [])) or "  (none)"
        open(f"{wt}/TASK.md", "w").write(T.format(wt=wt, id=p["id"], title=p["title"], statement=p["statement"], quant=p["quantifier"]["text"],
                                                   why=p["why_tests_cant"], anchors=json.dumps(p["anchors"], indent=1), prev=pv))
    print("prepared", len(props), "worktrees under", base)


if __name__ == "__main__":
    main(sys.argv[1:])
