#!/venv/bin/python
"""One mechanical rewrite, one or more checks, full messages:  tools/arf_one.py <module> <Qual.name> <T1,T3|all> <Cxx> [Cxx...] [--keep] [--diff]"""
import importlib.util
import os
import shutil
import subprocess
import sys
from pathlib import Path

spec = importlib.util.spec_from_file_location("arf", str(Path(__file__).with_name("autorefactor.py")))
arf = importlib.util.module_from_spec(spec)
spec.loader.exec_module(arf)
from sa.selfval import make_copy
from sa.runner import analyse
from sa.model import AnalysisError

args = [a for a in sys.argv[1:] if not a.startswith("--")]
mod, qual, which = args[0], args[1], (arf.ALL_T if args[2] == "all" else args[2].split(","))
d = make_copy(arf.REPO, touched=(), link_big=True)
p = Path(d) / arf.PKG / f"{mod}.py"
new, n = arf.rewrite_function(p.read_text(), qual, which)
p.write_text(new)
print("rewrites", n, "copy", d)
if "--diff" in sys.argv:
    subprocess.run(["diff", "-u", str(Path(arf.REPO) / arf.PKG / f"{mod}.py"), str(p)])
for pid in args[3:]:
    try:
        base = {(f["rule"], f["key"]) for f in analyse(pid, arf.REPO, "quick", 0, quiet=True).findings}
        chk = analyse(pid, d, "quick", 0, quiet=True)
        for f in chk.findings:
            if (f["rule"], f["key"]) not in base:
                print(pid, "NEW", f["rule"], f["key"], "\n    ", f.get("message", "")[:900], "\n    ", f.get("where"))
        print(pid, "anchor_error:", chk.anchor_error)
    except AnalysisError as e:
        print(pid, "AnalysisError:", e)
if "--keep" not in sys.argv:
    shutil.rmtree(d, ignore_errors=True)
