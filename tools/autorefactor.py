#!/venv/bin/python
"""Mechanical behaviour-preserving rewrites, one function at a time: every check must stay silent.

    tools/autorefactor.py [--only T1,T3] [--modules a,b] [--functions qual,...] [--keep] [--jobs N]

For every function of the analysed modules a scratch copy of /repo's sources
is made (under /tmp, removed afterwards), the function is replaced by a
rewritten but equivalent version, and all 18 checks are run in-process on the
copy.  A new finding or a lost anchor is a defect of the CHECK (the code
still has the property), so this tool is the false-alarm counterpart of
tools/seedmatrix.py.  Nothing here is a registered command.

Rewrites (each one keeps evaluation order and the set of executed effects):
  T1  rename local variables                    x -> x_
  T2  `if a and b: S`        -> `if a: if b: S`       (no else arm)
  T3  `if c: A else: B`      -> `if not c: B else: A`
  T8  `if c: return X; rest` -> `if c: return X else: rest`
  T10 `return E`             -> `ret_value_ = E; return ret_value_`
  T17 `x = a if c else b`    -> `if c: x = a else: x = b`
  T18 `for ..: if c: continue; rest` -> `for ..: if not c: rest`
"""
import ast
import json
import os
import shutil
import sys
import textwrap
from concurrent.futures import ProcessPoolExecutor
from pathlib import Path

VERIF = Path(__file__).resolve().parent.parent
sys.path.insert(0, str(VERIF))
os.chdir(VERIF)
sys.dont_write_bytecode = True
PIDS = [f"C{i:02d}" for i in range(1, 19)]
REPO = os.environ.get("VERIF_REPO", "/repo")
PKG = "src/stationeers_pytrapic"
MODULES = ["compiler", "compile_pass", "generate_code", "utils", "types", "register_assignment", "parse_lua", "mod_daemon", "__main__", "build_types", "stationpedia"]
ALL_T = ["T1", "T2", "T3", "T8", "T10", "T17", "T18"]


def _scopes_binding(fn, name):
    """nested scopes (defs, lambdas, comprehensions, classes) that bind `name` themselves"""
    for n in ast.walk(fn):
        if n is fn:
            continue
        if isinstance(n, (ast.FunctionDef, ast.AsyncFunctionDef, ast.Lambda)):
            a = n.args
            if any(x.arg == name for x in a.args + a.kwonlyargs + a.posonlyargs + ([a.vararg] if a.vararg else []) + ([a.kwarg] if a.kwarg else [])):
                return True
            if not isinstance(n, ast.Lambda):
                for m in ast.walk(n):
                    if isinstance(m, ast.Name) and m.id == name and isinstance(m.ctx, ast.Store):
                        return True
        if isinstance(n, (ast.ListComp, ast.SetComp, ast.DictComp, ast.GeneratorExp)):
            for g in n.generators:
                for m in ast.walk(g.target):
                    if isinstance(m, ast.Name) and m.id == name:
                        return True
        if isinstance(n, ast.ClassDef):
            return True
    return False


def t1_rename(fn):
    a = fn.args
    params = {x.arg for x in a.args + a.kwonlyargs + a.posonlyargs} | ({a.vararg.arg} if a.vararg else set()) | ({a.kwarg.arg} if a.kwarg else set())
    declared = set()
    for n in ast.walk(fn):
        if isinstance(n, (ast.Global, ast.Nonlocal)):
            declared |= set(n.names)
        if isinstance(n, ast.Call) and isinstance(n.func, ast.Name) and n.func.id in ("locals", "vars", "eval", "exec"):
            return 0
        if isinstance(n, ast.Match):
            return 0
    stores = set()

    def own(node):
        for ch in ast.iter_child_nodes(node):
            if isinstance(ch, (ast.FunctionDef, ast.AsyncFunctionDef, ast.Lambda, ast.ClassDef, ast.ListComp, ast.SetComp, ast.DictComp, ast.GeneratorExp)):
                continue
            if isinstance(ch, ast.Name) and isinstance(ch.ctx, ast.Store):
                stores.add(ch.id)
            own(ch)
    own(fn)
    # names bound by import / except / with-as inside the function are left alone
    for n in ast.walk(fn):
        if isinstance(n, (ast.Import, ast.ImportFrom)):
            for al in n.names:
                stores.discard((al.asname or al.name).split(".")[0])
        if isinstance(n, ast.ExceptHandler) and n.name:
            stores.discard(n.name)
    all_names = {n.id for n in ast.walk(fn) if isinstance(n, ast.Name)} | params
    cand = sorted(s for s in stores - params - declared if not s.startswith("__") and not _scopes_binding(fn, s) and s + "_" not in all_names)
    if not cand:
        return 0
    ren = {c: c + "_" for c in cand}
    for n in ast.walk(fn):
        if isinstance(n, ast.Name) and n.id in ren:
            n.id = ren[n.id]
    return len(cand)


class _T(ast.NodeTransformer):
    def __init__(self, which):
        self.which = which
        self.count = 0

    def _block(self, stmts):
        out = []
        i = 0
        while i < len(stmts):
            st = stmts[i]
            if "T8" in self.which and isinstance(st, ast.If) and not st.orelse and st.body and isinstance(st.body[-1], ast.Return) and i + 1 < len(stmts) \
                    and not any(isinstance(x, (ast.FunctionDef, ast.ClassDef)) for x in stmts[i + 1:]):
                st.orelse = self._block(stmts[i + 1:])
                self.count += 1
                out.append(st)
                return out
            out.append(st)
            i += 1
        return out

    def generic_visit(self, node):
        super().generic_visit(node)
        for f in ("body", "orelse", "finalbody"):
            b = getattr(node, f, None)
            if isinstance(b, list) and b and isinstance(b[0], ast.stmt):
                setattr(node, f, self._block(b))
        return node

    def visit_If(self, node):
        self.generic_visit(node)
        if "T2" in self.which and not node.orelse and isinstance(node.test, ast.BoolOp) and isinstance(node.test.op, ast.And):
            vals = node.test.values
            inner = ast.If(test=vals[-1], body=node.body, orelse=[])
            for v in reversed(vals[1:-1]):
                inner = ast.If(test=v, body=[inner], orelse=[])
            node.test = vals[0]
            node.body = [inner]
            self.count += 1
            return node
        if "T3" in self.which and node.orelse and not (len(node.orelse) == 1 and isinstance(node.orelse[0], ast.If)):
            t = node.test
            node.test = t.operand if isinstance(t, ast.UnaryOp) and isinstance(t.op, ast.Not) else ast.UnaryOp(op=ast.Not(), operand=t)
            node.body, node.orelse = node.orelse, node.body
            self.count += 1
        return node

    def visit_Return(self, node):
        self.generic_visit(node)
        if "T10" in self.which and node.value is not None and not isinstance(node.value, (ast.Name, ast.Constant)):
            self.count += 1
            return [ast.Assign(targets=[ast.Name(id="ret_value_", ctx=ast.Store())], value=node.value, lineno=0), ast.Return(value=ast.Name(id="ret_value_", ctx=ast.Load()))]
        return node

    def visit_Assign(self, node):
        self.generic_visit(node)
        if "T17" in self.which and isinstance(node.value, ast.IfExp) and len(node.targets) == 1 and isinstance(node.targets[0], ast.Name):
            self.count += 1
            tgt = node.targets[0]
            return ast.If(test=node.value.test,
                          body=[ast.Assign(targets=[ast.Name(id=tgt.id, ctx=ast.Store())], value=node.value.body, lineno=0)],
                          orelse=[ast.Assign(targets=[ast.Name(id=tgt.id, ctx=ast.Store())], value=node.value.orelse, lineno=0)])
        return node

    def visit_For(self, node):
        self.generic_visit(node)
        b = node.body
        if "T18" in self.which and len(b) >= 2 and isinstance(b[0], ast.If) and not b[0].orelse and len(b[0].body) == 1 and isinstance(b[0].body[0], ast.Continue):
            t = b[0].test
            neg = t.operand if isinstance(t, ast.UnaryOp) and isinstance(t.op, ast.Not) else ast.UnaryOp(op=ast.Not(), operand=t)
            node.body = [ast.If(test=neg, body=b[1:], orelse=[])]
            self.count += 1
        return node

    # nested scopes are rewritten as part of their own variant only
    def visit_Lambda(self, node):
        return node


def rewrite_function(src, qual, which):
    """-> (new source, number of rewrites) for the function `qual` (Class.method or function)"""
    tree = ast.parse(src)
    target = None
    parts = qual.split(".")

    def find(body, parts):
        for st in body:
            if isinstance(st, (ast.FunctionDef, ast.ClassDef)) and st.name == parts[0]:
                if len(parts) == 1:
                    return st
                return find(st.body, parts[1:])
        return None
    target = find(tree.body, parts)
    if target is None or not isinstance(target, ast.FunctionDef):
        return src, 0
    lines = src.splitlines(keepends=True)
    start = min([target.lineno] + [d.lineno for d in target.decorator_list])
    end = target.end_lineno
    seg = textwrap.dedent("".join(lines[start - 1:end]))
    indent = len(lines[target.lineno - 1]) - len(lines[target.lineno - 1].lstrip())
    ftree = ast.parse(seg)
    fn = ftree.body[0]
    n = 0
    if "ret_value_" in {x.id for x in ast.walk(fn) if isinstance(x, ast.Name)}:
        which = [w for w in which if w != "T10"]
    if "T1" in which:
        n += t1_rename(fn)
    tr = _T(which)
    # only the function's own statements: nested defs keep their own return rewriting (same transformer is fine)
    fn.body = [tr.visit(s) if not isinstance(s, list) else s for s in fn.body]
    flat = []
    for s in fn.body:
        flat.extend(s if isinstance(s, list) else [s])
    fn.body = tr._block(flat)
    n += tr.count
    if not n:
        return src, 0
    ast.fix_missing_locations(ftree)
    new = ast.unparse(ftree)
    new = textwrap.indent(new, " " * indent) + "\n"
    out = "".join(lines[:start - 1]) + new + "".join(lines[end:])
    ast.parse(out)
    return out, n


def functions_of(src):
    tree = ast.parse(src)
    out = []

    def walk(body, prefix):
        for st in body:
            if isinstance(st, ast.FunctionDef):
                out.append(prefix + st.name)
            elif isinstance(st, ast.ClassDef):
                walk(st.body, prefix + st.name + ".")
    walk(tree.body, "")
    return out


def findings(pid, root):
    from sa.runner import analyse
    from sa.model import AnalysisError
    try:
        chk = analyse(pid, root, "quick", 0, quiet=True)
        return sorted({(f["rule"], f["key"]) for f in chk.findings}), chk.anchor_error
    except AnalysisError as e:
        return [], str(e)
    except Exception as e:  # a crash of a check is a defect of the check, too
        return [], f"CRASH {type(e).__name__}: {e}"


def job(args):
    mod, qual, which, keep = args
    from sa.selfval import make_copy, BIG
    d = make_copy(REPO, touched=(), link_big=True)
    try:
        p = Path(d) / PKG / f"{mod}.py"
        new, n = rewrite_function(p.read_text(), qual, which)
        if not n:
            return mod, qual, 0, None
        p.write_text(new)
        out = {pid: findings(pid, d) for pid in PIDS}
        return mod, qual, n, out
    finally:
        if not keep:
            shutil.rmtree(d, ignore_errors=True)
        else:
            print("kept", d, mod, qual)


def main():
    argv = sys.argv[1:]

    def opt(name, default=None):
        if name in argv:
            return argv[argv.index(name) + 1]
        return default
    which = (opt("--only") or ",".join(ALL_T)).split(",")
    mods = (opt("--modules") or ",".join(MODULES)).split(",")
    only_fn = set((opt("--functions") or "").split(",")) - {""}
    jobs = int(opt("--jobs", "12"))
    keep = "--keep" in argv
    todo = []
    for m in mods:
        p = Path(REPO) / PKG / f"{m}.py"
        if not p.is_file():
            continue
        for q in functions_of(p.read_text()):
            if only_fn and q not in only_fn:
                continue
            todo.append((m, q, which, keep))
    base = {pid: findings(pid, REPO) for pid in PIDS}
    bad = 0
    done = 0
    with ProcessPoolExecutor(max_workers=jobs) as ex:
        for mod, qual, n, out in ex.map(job, todo):
            if not n:
                continue
            done += 1
            alarms, broken = {}, {}
            for pid in PIDS:
                keys, aerr = out[pid]
                new = [k for k in keys if k not in base[pid][0]]
                if new:
                    alarms[pid] = [f"{k[0]} {k[1]}"[:140] for k in new[:3]]
                elif aerr and aerr != base[pid][1]:
                    broken[pid] = aerr[:160]
            if alarms or broken:
                bad += 1
                print(f"{mod}:{qual} ({n} rewrites): FALSE-ALARMS={alarms or '-'} analysis-broken={broken or '-'}", flush=True)
    print(f"functions rewritten: {done}; variants that disturb a check: {bad}  (rewrites {','.join(which)})")
    return 1 if bad else 0


if __name__ == "__main__":
    sys.exit(main())
