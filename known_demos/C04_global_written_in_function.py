"""Known finding (C04, R04.e): a global that is written only inside a function gets the line interval of its accesses as
lifetime, not the whole program: a temporary of the main code takes its register between the call that writes it and the
call that reads it.  Exit 1 while the defect is present, 0 otherwise.   PYTHONPATH=<tree>/src python this_file.py"""
import re
import sys
from stationeers_pytrapic.compiler import compile_code

SRC = '''from stationeers_pytrapic.symbols import *

def setup():
    global g
    g = d0.Setting

def use():
    db.Setting = g

setup()
setup()
a = d1.Setting
b = d2.Setting
d3.Setting = a + b
use()
use()
while True:
    yield_()
'''
r = compile_code(SRC, {"append_version": False})
code = r["code"]
lines = [l.strip() for l in code.splitlines()]
g_reg = next(l.split()[1] for l in lines if l.startswith("l ") and l.endswith("d0 Setting"))
main = lines[:lines.index("setup:")]
clobber = [l for l in main if re.match(rf"\w+ {g_reg}\b", l) and not l.startswith(("s ", "jal", "j "))]
if clobber:
    print(f"C04 violated: the global lives in {g_reg}, the main code writes {g_reg} between setup() and use(): {clobber}")
    print(code)
    sys.exit(1)
print("ok: nothing in the main code writes the register of the global")
