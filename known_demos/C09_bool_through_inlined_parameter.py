"""Known finding (C09, R09.d): a constant name that holds True/False, passed to a function that is inlined, reaches the
instruction text as Python's spelling: 's db Setting True'.  Exit 1 while the defect is present, 0 otherwise."""
import sys
from stationeers_pytrapic.compiler import compile_code

SRC = '''from stationeers_pytrapic.symbols import *
FLAG = True
def f(a):
    db.Setting = a
f(FLAG)
'''
r = compile_code(SRC, {"append_version": False})
code = r["code"]
bad = [l for l in code.splitlines() if "True" in l.split("#")[0] or "False" in l.split("#")[0]]
if bad:
    print("C09 violated: not loadable IC10:", bad)
    sys.exit(1)
print("ok")
